package main

// Replay of solver models against the real code: a test is generated outside the repository and
// injected into the function's package with `go test -overlay` (nothing is written to /repo).

import (
	"encoding/json"
	"fmt"
	"go/types"
	"os"
	"os/exec"
	"path/filepath"
	"strconv"
	"strings"

	"golang.org/x/tools/go/ssa"
)

type ReplayResult struct {
	Attempted  bool   `json:"attempted"`
	Reproduced bool   `json:"reproduced"`
	Note       string `json:"note"`
	Test       string `json:"test_source,omitempty"`
	Output     string `json:"output,omitempty"`
	Cmd        string `json:"cmd,omitempty"`
}

func modelUint(s string) (uint64, bool) {
	s = strings.TrimSpace(s)
	switch {
	case strings.HasPrefix(s, "#x"):
		v, err := strconv.ParseUint(s[2:], 16, 64)
		return v, err == nil
	case strings.HasPrefix(s, "#b"):
		v, err := strconv.ParseUint(s[2:], 2, 64)
		return v, err == nil
	case strings.HasPrefix(s, "(_ bv"):
		var v uint64
		var w int
		if n, _ := fmt.Sscanf(s, "(_ bv%d %d)", &v, &w); n == 2 {
			return v, true
		}
	case strings.HasPrefix(s, "(- "):
		v, err := strconv.ParseInt(strings.TrimSuffix(s[3:], ")"), 10, 64)
		return uint64(-v), err == nil
	case s == "true":
		return 1, true
	case s == "false":
		return 0, true
	default:
		v, err := strconv.ParseUint(s, 10, 64)
		return v, err == nil
	}
	return 0, false
}

var panicPatterns = map[string][]string{
	"idx":         {"index out of range"},
	"slice":       {"slice bounds out of range"},
	"div0":        {"integer divide by zero"},
	"neglen":      {"makeslice: len out of range", "makeslice: cap out of range"},
	"assert-type": {"interface conversion"},
	"nil":         {"nil pointer dereference"},
	"nil-map":     {"assignment to entry in nil map"},
	"panic-call":  {""},
	"negshift":    {"negative shift amount"},
}

const maxReplayLen = 1 << 16

// goLiteral builds Go source for a parameter of type t from the model, or "" if unsupported.
func goArg(pname string, t types.Type, model map[string]string, pkgName string, imports map[string]bool) (string, string) {
	qual := func(p *types.Package) string {
		if p.Name() == pkgName {
			return ""
		}
		imports[p.Path()] = true
		return p.Name()
	}
	ts := types.TypeString(t, qual)
	if w, signed, ok := isIntType(t); ok {
		v, ok := modelUint(model[pname])
		if !ok {
			return ts + "(0)", ""
		}
		if signed {
			sv := int64(v)
			if w < 64 {
				sv = int64(v<<(64-uint(w))) >> (64 - uint(w))
			}
			if sv == -9223372036854775808 {
				return fmt.Sprintf("%s(-9223372036854775807-1)", ts), ""
			}
			return fmt.Sprintf("%s(%d)", ts, sv), ""
		}
		return fmt.Sprintf("%s(%d)", ts, v), ""
	}
	if isBoolType(t) {
		v, _ := modelUint(model[pname])
		return fmt.Sprintf("%s(%v)", ts, v != 0), ""
	}
	if isSlice(t) {
		ln, ok := modelUint(model[pname+"#len"])
		if !ok {
			ln = 0
		}
		if ln > maxReplayLen {
			return "", fmt.Sprintf("model needs len(%s)=%d > %d: not replayed", pname, ln, maxReplayLen)
		}
		ref, _ := modelUint(model[pname+"#ref"])
		if ref == 0 && ln == 0 {
			return ts + "(nil)", ""
		}
		et := sliceElem(t)
		ets := types.TypeString(et, qual)
		var elems []string
		allZero := true
		for i := uint64(0); i < ln; i++ {
			key := fmt.Sprintf("%s[%d]", pname, i)
			if mv, ok := model[key]; ok {
				if v, ok := modelUint(mv); ok && v != 0 {
					allZero = false
					elems = append(elems, fmt.Sprintf("%d: %d", i, v))
				}
			}
		}
		if allZero {
			return fmt.Sprintf("make(%s, %d)", ts, ln), ""
		}
		return fmt.Sprintf("func() %s { s := make(%s, %d); for k, v := range map[int]%s{%s} { s[k] = v }; return s }()", ts, ts, ln, ets, strings.Join(elems, ", ")), ""
	}
	if isString(t) {
		ln, _ := modelUint(model[pname+"#len"])
		if ln > maxReplayLen {
			return "", "string too long"
		}
		bs := make([]byte, ln)
		for i := range bs {
			if mv, ok := model[fmt.Sprintf("%s[%d]", pname, i)]; ok {
				v, _ := modelUint(mv)
				bs[i] = byte(v)
			} else {
				bs[i] = 'a'
			}
		}
		return fmt.Sprintf("%s(%q)", ts, string(bs)), ""
	}
	if pt, ok := t.Underlying().(*types.Pointer); ok {
		if _, isStruct := pt.Elem().Underlying().(*types.Struct); isStruct {
			return fmt.Sprintf("new(%s)", types.TypeString(pt.Elem(), qual)), ""
		}
		return "nil", ""
	}
	if isInterface(t) {
		if ts == "io.ReaderAt" {
			imports["bytes"] = true
			return "bytes.NewReader(make([]byte, 4096))", ""
		}
		return "nil", ""
	}
	if _, ok := t.Underlying().(*types.Struct); ok {
		return ts + "{}", ""
	}
	return "", "unsupported parameter type " + ts
}

func (e *Env) replay(ob *Oblig, results []*FuncResult) *ReplayResult {
	rr := &ReplayResult{}
	if ob.Status != "failed-sat" || len(ob.Model) == 0 {
		rr.Note = "solver returned no model (" + ob.Status + "); violation reported from the failed obligation alone"
		return rr
	}
	pats, ok := panicPatterns[ob.Kind]
	if !ok {
		rr.Note = "no executable oracle for obligation kind " + ob.Kind + "; model recorded"
		return rr
	}
	fn := e.funcs[ob.Func]
	if fn == nil || fn.Parent() != nil {
		rr.Note = "function is not directly callable"
		return rr
	}
	pkg := fn.Pkg.Pkg
	imports := map[string]bool{"testing": true, "fmt": true, "strings": true}
	var args []string
	var recvExpr string
	params := fn.Params
	if fn.Signature.Recv() != nil {
		a, note := goArg(params[0].Name(), params[0].Type(), ob.Model, pkg.Name(), imports)
		if a == "" {
			rr.Note = note
			return rr
		}
		recvExpr = "(" + a + ")."
		params = params[1:]
	}
	for _, p := range params {
		a, note := goArg(p.Name(), p.Type(), ob.Model, pkg.Name(), imports)
		if a == "" {
			rr.Note = note
			return rr
		}
		args = append(args, a)
	}
	call := fmt.Sprintf("%s%s(%s)", recvExpr, fn.Name(), strings.Join(args, ", "))
	if fn.Signature.Variadic() && len(args) > 0 {
		call = fmt.Sprintf("%s%s(%s...)", recvExpr, fn.Name(), strings.Join(args, ", "))
	}
	var patLits []string
	for _, p := range pats {
		patLits = append(patLits, strconv.Quote(p))
	}
	var imps []string
	for p := range imports {
		imps = append(imps, strconv.Quote(p))
	}
	src := fmt.Sprintf(`package %s

import (
	%s
)

func TestGovcReplay(t *testing.T) {
	defer func() {
		if r := recover(); r != nil {
			msg := fmt.Sprint(r)
			for _, p := range []string{%s} {
				if strings.Contains(msg, p) {
					t.Fatalf("GOVC-REPRODUCED %%s", msg)
				}
			}
			t.Logf("GOVC-OTHER-PANIC %%s", msg)
		}
	}()
	%s
}
`, pkg.Name(), strings.Join(imps, "\n\t"), strings.Join(patLits, ", "), call)
	rr.Test = src
	rr.Attempted = true
	// locate package directory
	var dir string
	for _, p := range e.pkgs {
		if p.Types == pkg && len(p.GoFiles) > 0 {
			dir = filepath.Dir(p.GoFiles[0])
		}
	}
	if dir == "" {
		rr.Note = "package directory not found"
		return rr
	}
	tmp, err := os.MkdirTemp("", "govc-replay-")
	if err != nil {
		rr.Note = err.Error()
		return rr
	}
	defer os.RemoveAll(tmp)
	testFile := filepath.Join(tmp, "zz_govc_replay_test.go")
	os.WriteFile(testFile, []byte(src), 0o644)
	ov := map[string]map[string]string{"Replace": {filepath.Join(dir, "zz_govc_replay_test.go"): testFile}}
	ovb, _ := json.Marshal(ov)
	ovFile := filepath.Join(tmp, "ov.json")
	os.WriteFile(ovFile, ovb, 0o644)
	cmd := exec.Command("bash", "-c", fmt.Sprintf("ulimit -v 8000000; cd %q && go test -overlay %q -vet=off -count=1 -timeout 60s -run '^TestGovcReplay$' . 2>&1 | tail -40", dir, ovFile))
	cmd.Env = append(os.Environ(), "GOFLAGS=-mod=mod", "GOPROXY=off", "GOTOOLCHAIN=local", "GOCACHE="+filepath.Join(os.TempDir(), "govc-gocache"))
	out, _ := cmd.CombinedOutput()
	rr.Output = string(out)
	rr.Cmd = "go test -overlay <ov.json> -vet=off -count=1 -timeout 60s -run ^TestGovcReplay$ (in " + dir + ")"
	if strings.Contains(rr.Output, "GOVC-REPRODUCED") {
		rr.Reproduced = true
		rr.Note = "the real code panics on the model's input"
	} else {
		rr.Note = "the real code did not reproduce the failure on the model's input"
	}
	return rr
}

var _ = ssa.NewProgram
