package main

import (
	"fmt"
	"go/token"
	"go/types"
	"math/big"
	"strings"

	"golang.org/x/tools/go/ssa"
)

// chainRoot computes, syntactically, the memory root and field path designated by an address value.
func chainRoot(a ssa.Value) (string, string) {
	switch x := a.(type) {
	case *ssa.FieldAddr:
		st := x.X.Type().Underlying().(*types.Pointer).Elem().Underlying().(*types.Struct)
		r, p := chainRoot(x.X)
		return r, p + "." + st.Field(x.Field).Name()
	case *ssa.IndexAddr:
		if isSlice(x.X.Type()) {
			return "E:" + typeKey(sliceElem(x.X.Type())), ""
		}
		return chainRoot(x.X)
	case *ssa.Global:
		return "G:" + x.Pkg.Pkg.Name() + "." + x.Name(), ""
	}
	if pt, ok := a.Type().Underlying().(*types.Pointer); ok {
		return rootForPointee(pt.Elem()), ""
	}
	return "?", ""
}

func addrComps(a ssa.Value) []string {
	pt, ok := a.Type().Underlying().(*types.Pointer)
	if !ok {
		return nil
	}
	r, p := chainRoot(a)
	var out []string
	for _, l := range leavesOf(pt.Elem()) {
		out = append(out, r+p+l.Path)
	}
	return out
}

// sliceArgComps: components a write through slice value v may touch (follows slicing of arrays syntactically).
func sliceArgComps(v ssa.Value) []string {
	for {
		sl, ok := v.(*ssa.Slice)
		if !ok {
			break
		}
		if isSlice(sl.X.Type()) {
			v = sl.X
			continue
		}
		if _, isPtr := sl.X.Type().Underlying().(*types.Pointer); isPtr {
			return addrComps(sl.X)
		}
		break
	}
	if isSlice(v.Type()) {
		return elemComps(v.Type())
	}
	return nil
}

// elemComps: components of the element memory of a slice type.
func elemComps(t types.Type) []string {
	et := sliceElem(t)
	var out []string
	for _, l := range leavesOf(et) {
		out = append(out, "E:"+typeKey(et)+l.Path)
	}
	return out
}

type modSet struct {
	comps map[string]bool
	all   bool
	// nonFresh: components with at least one write that may land in memory that existed before the call.
	// A component in comps but not in nonFresh is written only in memory allocated during the call.
	nonFresh map[string]bool
}

func (ms *modSet) add(k string, fresh bool) {
	ms.comps[k] = true
	if !fresh {
		if ms.nonFresh == nil {
			ms.nonFresh = map[string]bool{}
		}
		ms.nonFresh[k] = true
	}
}

func (ms *modSet) merge(sub *modSet) {
	for k := range sub.comps {
		ms.add(k, !sub.nonFresh[k])
	}
	if sub.all {
		ms.all = true
	}
}

// isFreshSlice: v is (a view of) memory allocated by the function that defines v: writes through it cannot
// touch memory that existed when that function was called. Cycles of phi/append/slice are fresh when all
// their inputs are (greatest fixpoint).
func isFreshSlice(v ssa.Value, seen map[ssa.Value]bool) bool {
	if seen[v] {
		return true
	}
	seen[v] = true
	switch x := v.(type) {
	case *ssa.MakeSlice:
		return true
	case *ssa.Const:
		return x.IsNil()
	case *ssa.Slice:
		if isSlice(x.X.Type()) {
			return isFreshSlice(x.X, seen)
		}
		if _, isPtr := x.X.Type().Underlying().(*types.Pointer); isPtr {
			return isFreshPtr(x.X, seen)
		}
		return false
	case *ssa.Phi:
		for _, e := range x.Edges {
			if !isFreshSlice(e, seen) {
				return false
			}
		}
		return true
	case *ssa.ChangeType:
		return isFreshSlice(x.X, seen)
	case *ssa.Convert:
		// []byte(string) / []rune(string) allocate
		if b, ok := x.X.Type().Underlying().(*types.Basic); ok && b.Info()&types.IsString != 0 && isSlice(x.Type()) {
			return true
		}
		return false
	case *ssa.Call:
		if b, ok := x.Call.Value.(*ssa.Builtin); ok && b.Name() == "append" && len(x.Call.Args) > 0 {
			return isFreshSlice(x.Call.Args[0], seen)
		}
		return false
	case *ssa.UnOp:
		// load of a slice field of an object allocated here that does not escape before the function
		// returns: the field holds nil or one of the values this function stores into it
		if x.Op != token.MUL {
			return false
		}
		fa, ok := x.X.(*ssa.FieldAddr)
		if !ok {
			return false
		}
		a, ok := fa.X.(*ssa.Alloc)
		if !ok || a.Referrers() == nil {
			return false
		}
		for _, r := range *a.Referrers() {
			switch y := r.(type) {
			case *ssa.FieldAddr:
				if y.Referrers() == nil {
					return false
				}
				for _, r2 := range *y.Referrers() {
					switch z := r2.(type) {
					case *ssa.Store:
						if z.Addr != ssa.Value(y) {
							return false // the field's address is stored somewhere
						}
						if y.Field == fa.Field && !isFreshSlice(z.Val, seen) {
							return false
						}
					case *ssa.UnOp, *ssa.DebugRef:
					default:
						return false
					}
				}
			case *ssa.Return, *ssa.DebugRef:
			default:
				return false // the object escapes (call argument, stored, boxed, merged)
			}
		}
		return true
	}
	return false
}

func isFreshPtr(v ssa.Value, seen map[ssa.Value]bool) bool {
	if seen[v] {
		return true
	}
	seen[v] = true
	switch x := v.(type) {
	case *ssa.Alloc:
		return true
	case *ssa.FieldAddr:
		return isFreshPtr(x.X, seen)
	case *ssa.IndexAddr:
		if isSlice(x.X.Type()) {
			return isFreshSlice(x.X, seen)
		}
		return isFreshPtr(x.X, seen)
	case *ssa.Phi:
		for _, e := range x.Edges {
			if !isFreshPtr(e, seen) {
				return false
			}
		}
		return true
	case *ssa.ChangeType:
		return isFreshPtr(x.X, seen)
	}
	return false
}

// allRefArgsFresh: every argument through which a callee could reach caller memory is fresh.
func allRefArgsFresh(c *ssa.CallCommon) bool {
	for _, a := range c.Args {
		switch a.Type().Underlying().(type) {
		case *types.Slice:
			if !isFreshSlice(a, map[ssa.Value]bool{}) {
				return false
			}
		case *types.Pointer:
			if !isFreshPtr(a, map[ssa.Value]bool{}) {
				return false
			}
		case *types.Basic:
		default:
			return false
		}
	}
	return !c.IsInvoke()
}

// modsOfInstrs computes components written by a set of blocks (syntactic, transitive through static calls).
func (e *Env) modsOfBlocks(blocks []*ssa.BasicBlock, ms *modSet, visiting map[*ssa.Function]bool) {
	for _, b := range blocks {
		for _, in := range b.Instrs {
			switch x := in.(type) {
			case *ssa.Store:
				fresh := isFreshPtr(x.Addr, map[ssa.Value]bool{})
				for _, c := range addrComps(x.Addr) {
					ms.add(c, fresh)
				}
			case *ssa.MapUpdate:
				ms.add("MAP", false)
			case *ssa.Call:
				e.modsOfCall(&x.Call, ms, visiting)
			case *ssa.Defer:
				e.modsOfCall(&x.Call, ms, visiting)
			case *ssa.Go:
				ms.all = true
			}
		}
	}
}

func (e *Env) modsOfCall(c *ssa.CallCommon, ms *modSet, visiting map[*ssa.Function]bool) {
	if c.IsInvoke() {
		name := c.Method.FullName()
		if im, ok := intrinsicMods[name]; ok {
			tmp := &modSet{comps: map[string]bool{}}
			im(c, tmp)
			for k := range tmp.comps {
				ms.add(k, false)
			}
			if tmp.all {
				ms.all = true
			}
			return
		}
		// module-local interface: union over implementations
		if impls := e.implementations(c); impls != nil {
			for _, f := range impls {
				ms.merge(e.modsOfFunc(f, visiting))
			}
			return
		}
		ms.all = true
		return
	}
	if b, ok := c.Value.(*ssa.Builtin); ok {
		switch b.Name() {
		case "append", "copy":
			if len(c.Args) > 0 {
				fresh := isFreshSlice(c.Args[0], map[ssa.Value]bool{})
				for _, k := range sliceArgComps(c.Args[0]) {
					ms.add(k, fresh)
				}
			}
		case "delete", "clear":
			ms.add("MAP", false)
		}
		return
	}
	callee := c.StaticCallee()
	if callee == nil {
		// closure / func value: if MakeClosure, analyse its body
		if mc, ok := c.Value.(*ssa.MakeClosure); ok {
			if f, ok := mc.Fn.(*ssa.Function); ok {
				callee = f
			}
		}
		if callee == nil {
			ms.all = true
			return
		}
	}
	name := callee.String()
	if im, ok := intrinsicMods[name]; ok {
		tmp := &modSet{comps: map[string]bool{}}
		im(c, tmp)
		fresh := allRefArgsFresh(c)
		for k := range tmp.comps {
			ms.add(k, fresh)
		}
		if tmp.all {
			ms.all = true
		}
		return
	}
	if len(callee.Blocks) == 0 || !e.inModule(callee) {
		// external function: may write memory reachable from its arguments (looking through interface boxing)
		for _, a := range c.Args {
			t := a.Type()
			if mi, ok := a.(*ssa.MakeInterface); ok {
				t = mi.X.Type()
			} else if isInterface(t) {
				ms.all = true // a boxed value of unknown dynamic type
			}
			for _, k := range reachableComps(t, 2) {
				ms.add(k, false)
			}
		}
		return
	}
	ms.merge(e.modsOfFunc(callee, visiting))
	// a callee under contract is replaced by its assigns clause at the call site: the components that clause
	// names belong to the mod-set too (e.g. every field of a freshly allocated result, `assigns result0.*`)
	if con := e.contracts[funcName(callee)]; con != nil && con.HasAssigns {
		// (freshness is decided by the callee's body, merged above: a component the clause names but the body
		// never writes to pre-existing memory stays fresh-only)
		for _, k := range staticAssignComps(con, callee) {
			ms.add(k, true)
		}
	}
}

// staticAssignComps: the memory components named by a contract's assigns items, from types alone.
func staticAssignComps(con *Contract, callee *ssa.Function) []string {
	env := map[string]types.Type{}
	for _, p := range callee.Params {
		env[p.Name()] = p.Type()
	}
	res := callee.Signature.Results()
	for i := 0; i < res.Len(); i++ {
		env[fmt.Sprintf("result%d", i)] = res.At(i).Type()
		if res.At(i).Name() != "" {
			env[res.At(i).Name()] = res.At(i).Type()
		}
	}
	if res.Len() == 1 {
		env["result"] = res.At(0).Type()
	}
	var typeOf func(x *SExpr) types.Type
	typeOf = func(x *SExpr) types.Type {
		switch x.Op {
		case "id":
			return env[x.Name]
		case "old":
			return typeOf(x.Args[0])
		case "sel":
			t := typeOf(x.Args[0])
			if t == nil {
				return nil
			}
			if pt, ok := t.Underlying().(*types.Pointer); ok {
				t = pt.Elem()
			}
			if st, ok := t.Underlying().(*types.Struct); ok {
				if i := fieldIndex(st, x.Name); i >= 0 {
					return st.Field(i).Type()
				}
			}
		case "idx":
			t := typeOf(x.Args[0])
			if t != nil && (isSlice(t) || isArrayType(t)) {
				return sliceElem(t)
			}
		}
		return nil
	}
	var out []string
	for _, cl := range con.Assigns {
		x := cl.E
		if x == nil {
			continue
		}
		switch x.Op {
		case "elems", "slice":
			if t := typeOf(x.Args[0]); t != nil && isSlice(t) {
				out = append(out, elemComps(t)...)
			}
		case "fields":
			if t := typeOf(x.Args[0]); t != nil {
				if pt, ok := t.Underlying().(*types.Pointer); ok {
					out = append(out, compsOf(&LV{Root: rootForPointee(pt.Elem()), T: pt.Elem()})...)
				}
			}
		case "sel":
			if t := typeOf(x.Args[0]); t != nil {
				if pt, ok := t.Underlying().(*types.Pointer); ok {
					if st, ok := pt.Elem().Underlying().(*types.Struct); ok {
						if i := fieldIndex(st, x.Name); i >= 0 {
							lv := (&LV{Root: rootForPointee(pt.Elem()), T: pt.Elem()}).extend(Step{Field: x.Name}, st.Field(i).Type())
							out = append(out, compsOf(lv)...)
						}
					}
				}
			}
		case "call":
			if x.Name == "file" {
				out = append(out, "FILE")
			}
			if x.Name == "ghost" {
				out = append(out, "GHOST")
			}
		}
	}
	return out
}

func isArrayType(t types.Type) bool {
	_, ok := t.Underlying().(*types.Array)
	return ok
}

func (e *Env) modsOfFunc(f *ssa.Function, visiting map[*ssa.Function]bool) *modSet {
	e.mu.Lock()
	ms0, ok0 := e.modCache[f]
	e.mu.Unlock()
	if ok0 {
		return ms0
	}
	if visiting[f] {
		return &modSet{comps: map[string]bool{}}
	}
	visiting[f] = true
	ms := &modSet{comps: map[string]bool{}}
	e.modsOfBlocks(f.Blocks, ms, visiting)
	// anonymous functions defined inside are accounted at their call sites
	delete(visiting, f)
	if len(visiting) == 0 {
		e.mu.Lock()
		e.modCache[f] = ms
		e.mu.Unlock()
	}
	return ms
}

// reachableComps: components that an external callee could write given an argument of type t.
func reachableComps(t types.Type, depth int) []string {
	var out []string
	switch u := t.Underlying().(type) {
	case *types.Slice:
		out = append(out, elemComps(t)...)
		if depth > 0 {
			out = append(out, reachableComps(u.Elem(), depth-1)...)
		}
	case *types.Pointer:
		lv := &LV{Root: rootForPointee(u.Elem()), T: u.Elem()}
		out = append(out, compsOf(lv)...)
		if depth > 0 {
			if st, ok := u.Elem().Underlying().(*types.Struct); ok {
				for i := 0; i < st.NumFields(); i++ {
					out = append(out, reachableComps(st.Field(i).Type(), depth-1)...)
				}
			}
		}
	}
	return out
}

func (fr *frame) loopMods(li *loopInfo) {
	var blocks []*ssa.BasicBlock
	for b := range li.body {
		blocks = append(blocks, b)
	}
	ms := &modSet{comps: li.mods}
	fr.ft.e.modsOfBlocks(blocks, ms, map[*ssa.Function]bool{})
	li.modAll = ms.all
}

// ---------------------------------------------------------------------------

func (fr *frame) mergeMem(preds []*ssa.BasicBlock, conds []Term) *Mem {
	ft := fr.ft
	if len(preds) == 1 {
		return fr.exit[preds[0]].mem.clone()
	}
	first := fr.exit[preds[0]].mem
	gen := first.gen
	same := true
	keys := map[string]bool{}
	vkeys := map[string]bool{}
	for _, p := range preds {
		m := fr.exit[p].mem
		if m.gen != gen {
			same = false
		}
		for k := range m.m {
			keys[k] = true
		}
		for k := range m.ver {
			vkeys[k] = true
		}
	}
	out := newMem()
	out.gen = gen
	forcedSort := map[string]string{}
	if !same {
		// untouched components become unknown after this join (sound over-approximation)
		ft.ngen++
		out.gen = ft.ngen
	}
	for k := range vkeys {
		if keys[k] {
			continue
		}
		// lazily-created on every path: keep the version if identical everywhere, else unknown
		v0, eq := first.ver[k], same
		for _, p := range preds {
			if fr.exit[p].mem.ver[k] != v0 {
				eq = false
			}
		}
		if eq {
			out.ver[k] = v0
		} else {
			// versions differ: if the component's sort is known (a symbol exists for some version), merge the symbols
			sortS := ""
			for _, p := range preds {
				m := fr.exit[p].mem
				if t, ok := ft.memSyms[fmt.Sprintf("%d|%d|%s", m.gen, m.ver[k], k)]; ok {
					sortS = t.S
					break
				}
			}
			if sortS != "" && same {
				keys[k] = true // handled by the explicit-merge loop below (memGet creates the per-version symbols)
				forcedSort[k] = sortS
			} else {
				ft.ngen++
				out.ver[k] = ft.ngen
			}
		}
	}
	for k := range keys {
		sortS := forcedSort[k]
		for _, p := range preds {
			if t, ok := fr.exit[p].mem.m[k]; ok {
				sortS = t.S
				break
			}
		}
		allSame := true
		var terms []Term
		for _, p := range preds {
			var t Term
			if _, has := fr.exit[p].mem.m[k]; !has && strings.HasPrefix(k, "$F:") {
				t = constArr(failSort(), tFalse) // ghost fail-stop flag never raised on this path
			} else {
				t = ft.memGet(fr.exit[p].mem, k, sortS)
			}
			terms = append(terms, t)
			if t.T != terms[0].T {
				allSame = false
			}
		}
		if allSame {
			out.m[k] = terms[0]
			continue
		}
		acc := terms[len(terms)-1]
		for i := len(terms) - 2; i >= 0; i-- {
			acc = mkIte(conds[i], terms[i], acc)
		}
		out.m[k] = ft.c.Define("mj$"+k, acc)
	}
	return out
}

func (fr *frame) run(pc Term, mem *Mem) {
	ft := fr.ft
	fr.exit = map[*ssa.BasicBlock]*bstate{}
	fr.findLoops()
	order := fr.rpo()
	entry := fr.fn.Blocks[0]
	for _, b := range order {
		if ft.fatal != "" {
			return
		}
		var st *bstate
		var preds []*ssa.BasicBlock
		var conds []Term
		if b == entry {
			st = &bstate{pc: pc, mem: mem}
		} else {
			for _, p := range b.Preds {
				if isBackEdge(p, b) {
					continue
				}
				ps := fr.exit[p]
				if ps == nil {
					continue
				}
				c := fr.edgeCond(p, b, ps)
				if c.T == "false" {
					continue
				}
				preds = append(preds, p)
				conds = append(conds, c)
			}
			if len(preds) == 0 {
				continue // unreachable
			}
			for i := range conds {
				conds[i] = ft.c.Define(fmt.Sprintf("e%d_%d", preds[i].Index, b.Index), conds[i])
			}
			st = &bstate{pc: ft.c.Define(fmt.Sprintf("pc%d", b.Index), mkOr(conds...)), mem: fr.mergeMem(preds, conds)}
		}
		fr.cur = st
		fr.curBlock = b
		li := fr.loops[b]
		// phis
		var phis []*ssa.Phi
		for _, in := range b.Instrs {
			if p, ok := in.(*ssa.Phi); ok {
				phis = append(phis, p)
			} else {
				break
			}
		}
		if li != nil {
			fr.loopMods(li)
			// inv-init on every entry edge
			for i, p := range preds {
				over := map[*ssa.Phi]*Val{}
				for _, ph := range phis {
					over[ph] = fr.val(ph.Edges[predIndex(b, p)])
				}
				fr.checkInvariants(li, conds[i], fr.exit[p].mem, over, "inv-init", p.Instrs[len(p.Instrs)-1].Pos())
			}
			// havoc
			if li.modAll {
				ft.havocAll(st.mem)
			} else {
				for k := range li.mods {
					ft.havocComp(st.mem, k)
				}
			}
			for _, ph := range phis {
				fr.vals[ph] = ft.freshVal(fmt.Sprintf("%s$%s", ph.Name(), ph.Comment), ph.Type())
			}
			if fr.loopEntryMem == nil {
				fr.loopEntryMem = map[*loopInfo]*Mem{}
			}
			fr.loopEntryMem[li] = st.mem.clone()
			fr.assumeInvariants(li)
		} else {
			for _, ph := range phis {
				var acc *Val
				for i := len(preds) - 1; i >= 0; i-- {
					v := fr.val(ph.Edges[predIndex(b, preds[i])])
					if acc == nil {
						acc = v
					} else {
						acc = ft.iteVal(conds[i], v, acc)
					}
				}
				acc2 := ft.nameVal(ph.Name(), acc)
				acc2.T = ph.Type()
				fr.vals[ph] = acc2
			}
		}
		for _, in := range b.Instrs {
			if _, ok := in.(*ssa.Phi); ok {
				continue
			}
			fr.instr(in)
			if ft.fatal != "" {
				return
			}
		}
		fr.exit[b] = fr.cur
		// back edges leaving this block: inv-pres
		for _, s := range b.Succs {
			if isBackEdge(b, s) {
				lh := fr.loops[s]
				c := fr.edgeCond(b, s, fr.cur)
				over := map[*ssa.Phi]*Val{}
				for _, in := range s.Instrs {
					if ph, ok := in.(*ssa.Phi); ok {
						over[ph] = fr.val(ph.Edges[predIndex(s, b)])
					} else {
						break
					}
				}
				fr.checkInvariants(lh, c, fr.cur.mem, over, "inv-pres", b.Instrs[len(b.Instrs)-1].Pos())
				fr.failstopAtBackEdge(c, fr.cur.mem, lh, b.Instrs[len(b.Instrs)-1].Pos())
			}
		}
	}
}

func predIndex(b, p *ssa.BasicBlock) int {
	for i, x := range b.Preds {
		if x == p {
			return i
		}
	}
	return -1
}

// ---------------------------------------------------------------------------
// instructions

func (fr *frame) set(v ssa.Value, x *Val) {
	if x == nil {
		return
	}
	if x.Tup == nil {
		nx := fr.ft.nameVal(v.Name(), x)
		nx.T = v.Type()
		x = nx
	}
	fr.vals[v] = x
}

func (fr *frame) instr(in ssa.Instruction) {
	ft := fr.ft
	e := ft.e
	switch x := in.(type) {
	case *ssa.DebugRef:
		if x.IsAddr {
			// address-taken local: remember its cell so that contracts can name the variable
			if x.Object() != nil {
				if fr.dbgAddr == nil {
					fr.dbgAddr = map[types.Object]ssa.Value{}
				}
				fr.dbgAddr[x.Object()] = x.X
			}
			return
		}
		if id, ok := x.Expr.(interface{ Pos() token.Pos }); ok && x.Object() != nil {
			_ = id
			fr.dbg[x.Object()] = append(fr.dbg[x.Object()], x.X)
		}
	case *ssa.Alloc:
		fr.set(x, fr.alloc(x.Type().Underlying().(*types.Pointer).Elem(), x.Comment))
	case *ssa.BinOp:
		fr.set(x, fr.binop(x))
	case *ssa.UnOp:
		fr.set(x, fr.unop(x))
	case *ssa.Convert:
		fr.set(x, fr.convert(x.X, x.Type(), x.Pos()))
	case *ssa.ChangeType:
		v := *fr.val(x.X)
		v.T = x.Type()
		fr.vals[x] = &v
	case *ssa.ChangeInterface:
		v := *fr.val(x.X)
		v.T = x.Type()
		fr.vals[x] = &v
	case *ssa.MakeInterface:
		src := fr.val(x.X)
		tag := intConst(int64(e.typeID(typeKey(x.X.Type()))))
		var pl Term
		if isPointer(x.X.Type()) {
			pl = src.L[0]
			if src.LV != nil && len(src.LV.Steps) > 0 {
				ft.note("interior pointer boxed into interface")
			}
		} else {
			pl = ft.c.Fresh("box", SInt)
			if ft.boxes == nil {
				ft.boxes = map[string]*Val{}
			}
			ft.boxes[pl.T+"|"+typeKey(x.X.Type())] = src
		}
		fr.vals[x] = &Val{T: x.Type(), L: []Term{tag, pl}, Tup: nil, FnName: "", LV: nil, Rg: nil, Lit: nil}
		fr.vals[x].boxed = src
	case *ssa.TypeAssert:
		fr.typeAssert(x)
	case *ssa.Extract:
		t := fr.val(x.Tuple)
		if t.Tup != nil && x.Index < len(t.Tup) {
			fr.vals[x] = t.Tup[x.Index]
		} else {
			fr.vals[x] = ft.freshVal(x.Name(), x.Type())
		}
	case *ssa.Field:
		st := x.X.Type().Underlying().(*types.Struct)
		_ = st
		fr.set(x, fr.val(x.X).field(x.Field))
	case *ssa.FieldAddr:
		base := fr.val(x.X)
		fr.oblige("nil", e.srcText(x.Pos(), "sel"), x.Pos(), mkNot(mkEq(base.L[0], intConst(0))))
		lv := base.loc()
		st := lv.T.Underlying().(*types.Struct)
		f := st.Field(x.Field)
		nlv := lv.extend(Step{Field: f.Name()}, f.Type())
		fr.vals[x] = &Val{T: x.Type(), L: []Term{base.L[0]}, LV: nlv}
	case *ssa.IndexAddr:
		fr.indexAddr(x)
	case *ssa.Index:
		fr.indexVal(x)
	case *ssa.Slice:
		fr.sliceOp(x)
	case *ssa.MakeSlice:
		fr.makeSlice(x)
	case *ssa.Store:
		addr := fr.val(x.Addr)
		v := fr.val(x.Val)
		fr.storeAt(addr, v, x.Pos())
	case *ssa.Call:
		fr.call(x)
	case *ssa.Return:
		var vs []*Val
		for _, r := range x.Results {
			vs = append(vs, fr.val(r))
		}
		fr.rets = append(fr.rets, retSite{pc: fr.cur.pc, mem: fr.cur.mem.clone(), vals: vs, pos: x.Pos()})
	case *ssa.If, *ssa.Jump:
	case *ssa.Panic:
		fr.oblige("panic-call", e.srcText(x.Pos(), "call"), x.Pos(), tFalse)
	case *ssa.RunDefers:
	case *ssa.Defer:
		ft.note("defer ignored: " + calleeName(&x.Call))
	case *ssa.Go:
		ft.note("go statement ignored")
	case *ssa.MakeMap:
		fr.vals[x] = &Val{T: x.Type(), L: []Term{ft.newRef()}}
	case *ssa.MakeChan:
		fr.vals[x] = &Val{T: x.Type(), L: []Term{ft.newRef()}}
	case *ssa.MakeClosure:
		v := &Val{T: x.Type(), L: []Term{ft.newRef()}}
		if f, ok := x.Fn.(*ssa.Function); ok {
			v.Fn = f
			for _, b := range x.Bindings {
				v.Bind = append(v.Bind, fr.val(b))
			}
		}
		fr.vals[x] = v
	case *ssa.Lookup:
		if isString(x.X.Type()) {
			s := fr.val(x.X)
			i := fr.asIdx(x.Index)
			fr.oblige("idx", e.srcText(x.Pos(), "index"), x.Pos(), idxInRange(i, s.strLen()))
			bt := mkSelect(s.strArr(), app(SIdx, "bvadd", s.strOff(), i))
			if gInt {
				bt = ft.rangedDef("sb", bt, func(x Term) Term { return inTypeRange(x, 8, false) })
			}
			fr.set(x, &Val{T: x.Type(), L: []Term{bt}})
			return
		}
		m := fr.val(x.X)
		if x.CommaOk {
			tv := ft.freshVal(x.Name(), x.Type().(*types.Tuple).At(0).Type())
			ok := ft.c.Fresh(x.Name()+"$ok", SBool)
			// nil map: lookup yields zero, false
			ft.c.Assume(ok, mkImp(mkEq(m.L[0], intConst(0)), mkNot(ok)))
			fr.vals[x] = &Val{T: x.Type(), Tup: []*Val{tv, {T: types.Typ[types.Bool], L: []Term{ok}}}}
		} else {
			fr.vals[x] = ft.freshVal(x.Name(), x.Type())
		}
	case *ssa.MapUpdate:
		m := fr.val(x.Map)
		fr.oblige("nil-map", e.srcText(x.Pos(), "index"), x.Pos(), mkNot(mkEq(m.L[0], intConst(0))))
	case *ssa.Range:
		fr.vals[x] = &Val{T: x.Type(), L: []Term{intConst(0)}}
	case *ssa.Next:
		tt := x.Type().(*types.Tuple)
		var tup []*Val
		for i := 0; i < tt.Len(); i++ {
			tup = append(tup, ft.freshVal(fmt.Sprintf("%s$%d", x.Name(), i), tt.At(i).Type()))
		}
		fr.vals[x] = &Val{T: x.Type(), Tup: tup}
	case *ssa.Select:
		ft.note("select ignored")
		fr.vals[x] = fr.freshTuple(x.Name(), x.Type())
	case *ssa.Send:
		ft.note("channel send ignored")
	case *ssa.SliceToArrayPointer:
		ft.note("slice-to-array-pointer conversion havocked")
		fr.vals[x] = ft.freshVal(x.Name(), x.Type())
	case *ssa.MultiConvert:
		fr.vals[x] = ft.freshVal(x.Name(), x.Type())
	default:
		ft.note(fmt.Sprintf("unsupported instruction %T", in))
		if v, ok := in.(ssa.Value); ok {
			fr.vals[v] = ft.freshVal(v.Name(), v.Type())
		}
	}
}

func (fr *frame) freshTuple(hint string, t types.Type) *Val {
	tt, ok := t.(*types.Tuple)
	if !ok {
		return fr.ft.freshVal(hint, t)
	}
	var tup []*Val
	for i := 0; i < tt.Len(); i++ {
		tup = append(tup, fr.ft.freshVal(fmt.Sprintf("%s$%d", hint, i), tt.At(i).Type()))
	}
	return &Val{T: t, Tup: tup}
}

func calleeName(c *ssa.CallCommon) string {
	if c.IsInvoke() {
		return c.Method.FullName()
	}
	if f := c.StaticCallee(); f != nil {
		return f.String()
	}
	if b, ok := c.Value.(*ssa.Builtin); ok {
		return "builtin:" + b.Name()
	}
	return "dynamic"
}

func (fr *frame) alloc(t types.Type, hint string) *Val {
	ft := fr.ft
	ref := ft.newRef()
	lv := &LV{Root: rootForPointee(t), Ref: ref, T: t}
	ft.store(fr.cur.mem, lv, zeroVal(t))
	return &Val{T: types.NewPointer(t), L: []Term{ref}, LV: lv}
}

func (fr *frame) asIdx(v ssa.Value) Term {
	x := fr.val(v)
	w, signed, ok := isIntType(v.Type())
	if !ok {
		return fr.ft.c.Fresh("idx", SIdx)
	}
	t := extendTo(x.L[0], w, signed, 64)
	fr.ft.c.AddInst(t)
	return t
}

func extendTo(t Term, w int, signed bool, to int) Term {
	if gInt {
		// value-preserving when widening an unsigned or any widening kept in range; narrowing wraps modulo 2^to.
		// Same-width conversions between signed and unsigned are handled by convertInt (needs target signedness).
		if to >= w {
			return t
		}
		if v, ok := intLitVal(t); ok {
			return intLitBig(new(big.Int).Mod(v, pow2(to)))
		}
		return Term{SInt, fmt.Sprintf("(mod %s %s)", t.T, pow2(to).String())}
	}
	if w == to {
		return t
	}
	if w > to {
		return Term{SBV(to), fmt.Sprintf("((_ extract %d 0) %s)", to-1, t.T)}
	}
	if signed {
		return Term{SBV(to), fmt.Sprintf("((_ sign_extend %d) %s)", to-w, t.T)}
	}
	return Term{SBV(to), fmt.Sprintf("((_ zero_extend %d) %s)", to-w, t.T)}
}

func (fr *frame) indexAddr(x *ssa.IndexAddr) {
	ft := fr.ft
	base := fr.val(x.X)
	i := fr.asIdx(x.Index)
	text := ft.e.srcText(x.Pos(), "index")
	et := x.Type().Underlying().(*types.Pointer).Elem()
	if isSlice(x.X.Type()) {
		fr.oblige("idx", text, x.Pos(), idxInRange(i, base.sLen()))
		bk := base.backing()
		ai := ft.c.Define("ai", app(SIdx, "bvadd", base.sOff(), i))
		ft.c.AddInst(ai)
		nlv := bk.extend(Step{Idx: &ai}, et)
		fr.vals[x] = &Val{T: x.Type(), L: []Term{base.sRef()}, LV: nlv}
		return
	}
	// pointer to array
	at := x.X.Type().Underlying().(*types.Pointer).Elem().Underlying().(*types.Array)
	fr.oblige("idx", text, x.Pos(), idxInRange(i, idxInt(at.Len())))
	lv := base.loc()
	nlv := lv.extend(Step{Idx: &i}, et)
	fr.vals[x] = &Val{T: x.Type(), L: []Term{base.L[0]}, LV: nlv}
}

func (fr *frame) indexVal(x *ssa.Index) {
	// array value or string/typeparam index
	base := fr.val(x.X)
	i := fr.asIdx(x.Index)
	text := fr.ft.e.srcText(x.Pos(), "index")
	if at, ok := x.X.Type().Underlying().(*types.Array); ok {
		fr.oblige("idx", text, x.Pos(), idxInRange(i, idxInt(at.Len())))
		fr.set(x, base.index(i))
		return
	}
	if isString(x.X.Type()) {
		// x/tools >= v0.50 emits ssa.Index (not ssa.Lookup) for s[i] on strings
		fr.oblige("idx", text, x.Pos(), idxInRange(i, base.strLen()))
		bt := mkSelect(base.strArr(), app(SIdx, "bvadd", base.strOff(), i))
		if gInt {
			bt = fr.ft.rangedDef("sb", bt, func(x Term) Term { return inTypeRange(x, 8, false) })
		}
		fr.set(x, &Val{T: x.Type(), L: []Term{bt}})
		return
	}
	fr.vals[x] = fr.ft.freshVal(x.Name(), x.Type())
}

func (fr *frame) sliceOp(x *ssa.Slice) {
	ft := fr.ft
	base := fr.val(x.X)
	text := ft.e.srcText(x.Pos(), "slice")
	var lo, hi, mx *Term
	get := func(v ssa.Value) *Term {
		if v == nil {
			return nil
		}
		t := fr.asIdx(v)
		return &t
	}
	lo, hi, mx = get(x.Low), get(x.High), get(x.Max)
	zero := idxInt(0)
	if isString(x.X.Type()) {
		l := zero
		if lo != nil {
			l = *lo
		}
		h := base.strLen()
		if hi != nil {
			h = *hi
		}
		fr.oblige("slice", text, x.Pos(), mkAnd(uLe(l, h), uLe(h, base.strLen())))
		fr.set(x, &Val{T: x.Type(), L: []Term{base.strArr(), app(SIdx, "bvadd", base.strOff(), l), app(SIdx, "bvsub", h, l)}})
		return
	}
	var ref, off, ln, cp Term
	var rg *LV
	if isSlice(x.X.Type()) {
		ref, off, ln, cp = base.sRef(), base.sOff(), base.sLen(), base.sCap()
		rg = base.Rg
	} else {
		// pointer to array
		at := x.X.Type().Underlying().(*types.Pointer).Elem().Underlying().(*types.Array)
		lv := base.loc()
		ref, off = lv.Ref, zero
		ln, cp = idxInt(at.Len()), idxInt(at.Len())
		if !(strings.HasPrefix(lv.Root, "E:") && len(lv.Steps) == 0) {
			rg = lv
		}
		fr.oblige("nil", text, x.Pos(), mkNot(mkEq(base.L[0], intConst(0))))
	}
	l := zero
	if lo != nil {
		l = *lo
	}
	h := ln
	if hi != nil {
		h = *hi
	}
	m := cp
	if mx != nil {
		m = *mx
	}
	// Go: 0 <= low <= high <= max <= cap
	goal := mkAnd(uLe(l, h), uLe(h, m), uLe(m, cp))
	fr.oblige("slice", text, x.Pos(), goal)
	out := &Val{T: x.Type(), L: []Term{ref, app(SIdx, "bvadd", off, l), app(SIdx, "bvsub", h, l), app(SIdx, "bvsub", m, l)}, Rg: rg}
	nv := ft.nameVal(x.Name(), out)
	nv.T = x.Type()
	fr.vals[x] = nv
}

func (fr *frame) makeSlice(x *ssa.MakeSlice) {
	ft := fr.ft
	text := ft.e.srcText(x.Pos(), "call")
	ln := fr.asIdx(x.Len)
	cp := fr.asIdx(x.Cap)
	fr.oblige("neglen", text, x.Pos(), mkAnd(app(SBool, "bvsge", ln, idxInt(0)), app(SBool, "bvsle", ln, cp)))
	// allocation size is a constant-bounded quantity, or bounded by the length of data that already exists
	alts := []Term{uLe(cp, idxInt(allocCap))}
	for _, l := range fr.ft.seenLens {
		alts = append(alts, uLe(cp, l))
	}
	fr.oblige("alloc-cap", text, x.Pos(), mkOr(alts...))
	fr.vals[x] = fr.newSlice(x.Type(), ln, cp)
}

const allocCap = int64(1) << 31

func (fr *frame) newSlice(t types.Type, ln, cp Term) *Val {
	ft := fr.ft
	et := sliceElem(t)
	ref := ft.newRef()
	lv := &LV{Root: "E:" + typeKey(et), Ref: ref, T: types.NewArray(et, 1)}
	// zero-initialise the whole backing array
	for _, l := range leavesOf(lv.T) {
		name, s := compFor(lv, l)
		arr := ft.memGet(fr.cur.mem, name, s)
		fr.cur.mem.m[name] = ft.c.Define("m$"+name, mkStore(arr, ref, zeroOf(l.Sort)))
		fr.checkLoopMod(name)
	}
	return &Val{T: t, L: []Term{ref, idxInt(0), ln, cp}}
}

func (fr *frame) checkLoopMod(comp string) {
	for _, li := range fr.inLoop[fr.curBlock] {
		if !li.modAll && !li.mods[comp] {
			fr.ft.fatal = fmt.Sprintf("internal: component %s written in loop %d but not in its havoc set", comp, li.ordinal)
		}
	}
}

func (fr *frame) storeAt(addr *Val, v *Val, pos token.Pos) {
	ft := fr.ft
	lv := addr.loc()
	if len(lv.Steps) == 0 {
		fr.oblige("nil", "store", pos, mkNot(mkEq(addr.L[0], intConst(0))))
	}
	// coerce value type to location type (named/unnamed identical layouts)
	vv := v
	if len(v.L) != len(leavesOf(lv.T)) {
		ft.fatal = fmt.Sprintf("store shape mismatch: %s into %s", v.T, lv.T)
		return
	}
	if v.LV != nil && len(v.LV.Steps) > 0 {
		ft.note("interior pointer stored to memory")
	}
	if v.Rg != nil {
		ft.note("slice of a field array stored to memory")
	}
	ft.store(fr.cur.mem, lv, vv)
	for _, c := range compsOf(lv) {
		fr.checkLoopMod(c)
	}
	if ix := lv.idxs(); len(ix) > 0 && (strings.HasPrefix(lv.Root, "E:")) && lv.Steps[0].Idx != nil {
		lo := ix[0]
		hi := app(SIdx, "bvadd", lo, idxInt(1))
		fr.frameCheckRange(compsOf(lv), lv.Ref, &lo, &hi, "store", pos)
	} else {
		fr.frameCheck(compsOf(lv), lv.Ref, "store", pos)
	}
}

func (fr *frame) loadFrom(addr *Val, t types.Type, pos token.Pos) *Val {
	lv := addr.loc()
	if len(lv.Steps) == 0 {
		fr.oblige("nil", "load", pos, mkNot(mkEq(addr.L[0], intConst(0))))
	}
	v := fr.ft.load(fr.cur.mem, lv)
	v.T = t
	if len(lv.Steps) == 0 && fr.ft.e.nonNilGlobals[lv.Root] && isInterface(t) {
		fr.assume(mkNot(mkEq(v.L[0], intConst(0))))
	}
	return v
}

func (fr *frame) typeAssert(x *ssa.TypeAssert) {
	ft := fr.ft
	src := fr.val(x.X)
	var ok Term
	var out *Val
	if isInterface(x.AssertedType) {
		ok = ft.c.Fresh(x.Name()+"$ok", SBool)
		ft.c.Assume(ok, mkImp(ok, mkNot(mkEq(src.L[0], intConst(0)))))
		out = &Val{T: x.AssertedType, L: []Term{src.L[0], src.L[1]}, boxed: src.boxed}
	} else {
		tag := intConst(int64(ft.e.typeID(typeKey(x.AssertedType))))
		ok = mkEq(src.L[0], tag)
		switch {
		case isPointer(x.AssertedType):
			out = &Val{T: x.AssertedType, L: []Term{src.L[1]}}
		case src.boxed != nil && types.Identical(src.boxed.T, x.AssertedType):
			out = src.boxed
		case len(leavesOf(x.AssertedType)) > 0:
			out = ft.unbox(src.L[1], x.AssertedType, x.Name())
		default:
			out = ft.freshVal(x.Name(), x.AssertedType)
		}
	}
	if x.CommaOk {
		// on failure the value is the zero value
		z := zeroVal(x.AssertedType)
		res := ft.iteVal(ok, out, z)
		res.boxed = out.boxed
		fr.vals[x] = &Val{T: x.Type(), Tup: []*Val{res, {T: types.Typ[types.Bool], L: []Term{ok}}}}
		return
	}
	fr.oblige("assert-type", ft.e.srcText(x.Pos(), "typeassert"), x.Pos(), ok)
	fr.vals[x] = out
}
