package structures

import (
	"bytes"
	"encoding/binary"
	"testing"

	"github.com/scigolib/hdf5/internal/core"
)

type capWriter struct{ buf []byte }

func (w *capWriter) WriteAtAddress(data []byte, addr uint64) error {
	w.buf = append([]byte(nil), data...)
	return nil
}

// (1) capacity check ignores block prefix and checksum
func TestReplayPrefixLoss(t *testing.T) {
	fh := NewWritableFractalHeap(64)
	d := bytes.Repeat([]byte{0xAB}, 60)
	id, err := fh.InsertObject(d)
	if err != nil {
		t.Fatalf("insert: %v", err)
	}
	got, _ := fh.GetObject(id)
	if !bytes.Equal(got, d) {
		t.Fatal("in-memory get differs")
	}
	sb := &core.Superblock{OffsetSize: 8, LengthSize: 8, Endianness: binary.LittleEndian}
	w := &capWriter{}
	if err := fh.writeDirectBlockAt(w, 1000, sb); err != nil {
		t.Fatal(err)
	}
	prefix := 5 + 8 + 2
	stored := w.buf[prefix:]
	n := 0
	for i := 0; i < len(d) && i < len(stored); i++ {
		if stored[i] == d[i] {
			n++
		}
	}
	t.Logf("block=%d bytes, object=%d bytes, bytes surviving in written block: %d (lost %d)", len(w.buf), len(d), n, len(d)-n)
	if n != len(d) {
		t.Errorf("DEFECT: %d stored bytes lost to prefix/checksum", len(d)-n)
	}
}

// (2) 2-byte offset field cannot address a 512KB block
func TestReplayOffsetTruncation(t *testing.T) {
	fh := NewWritableFractalHeap(512 * 1024)
	var ids [][]byte
	var datas [][]byte
	for i := 0; i < 3; i++ {
		d := bytes.Repeat([]byte{byte(i + 1)}, 40000)
		id, err := fh.InsertObject(d)
		if err != nil {
			t.Fatal(err)
		}
		ids = append(ids, id)
		datas = append(datas, d)
	}
	for i := range ids {
		got, err := fh.GetObject(ids[i])
		if err != nil || !bytes.Equal(got, datas[i]) {
			t.Errorf("DEFECT: object %d (offset %d) read back wrong: err=%v first byte=%v want %v", i, i*40000, err, got[:1], datas[i][:1])
		}
	}
}

// (3) double delete is accepted and corrupts the counters
func TestReplayDoubleDelete(t *testing.T) {
	fh := NewWritableFractalHeap(65536)
	id, _ := fh.InsertObject([]byte("hello"))
	if err := fh.DeleteObject(id); err != nil {
		t.Fatal(err)
	}
	err := fh.DeleteObject(id)
	t.Logf("second delete err=%v count=%d free=%d size=%d", err, fh.Header.NumManagedObjects, fh.Header.FreeSpace, fh.DirectBlock.Size)
	if err == nil {
		t.Errorf("DEFECT: second delete accepted; NumManagedObjects=%d FreeSpace=%d > Size=%d", fh.Header.NumManagedObjects, fh.Header.FreeSpace, fh.DirectBlock.Size)
	}
}

// (4) an insert that does not fit mutates the heap (transition to indirect root) instead of failing cleanly
func TestReplayNoFitMutates(t *testing.T) {
	fh := NewWritableFractalHeap(64)
	fh.InsertObject(bytes.Repeat([]byte{1}, 60))
	_, err := fh.InsertObject(bytes.Repeat([]byte{2}, 10))
	t.Logf("err=%v RootIndirectBlock!=nil: %v CurrentNumRows=%d len(DirectBlocks)=%d count=%d", err, fh.RootIndirectBlock != nil, fh.Header.CurrentNumRows, len(fh.DirectBlocks), fh.Header.NumManagedObjects)
	if err != nil && fh.RootIndirectBlock != nil {
		t.Errorf("DEFECT: failed insert changed the heap")
	}
	if err == nil {
		t.Logf("insert succeeded via indirect root; WriteToFile only writes fh.DirectBlock")
	}
}

// (5) indirect path: the failing insert has already registered a new block and bumped the header counters
func TestReplayIndirectFullMutates(t *testing.T) {
	fh := NewWritableFractalHeap(64)
	var err error
	n := 0
	for err == nil && n < 100 {
		before := *fh.Header
		nb := len(fh.DirectBlocks)
		_, err = fh.InsertObject(bytes.Repeat([]byte{byte(n)}, 40))
		if err != nil {
			t.Logf("insert %d failed: %v", n, err)
			if len(fh.DirectBlocks) != nb || fh.Header.FreeSpace != before.FreeSpace || fh.Header.ManagedSpaceSize != before.ManagedSpaceSize {
				t.Errorf("DEFECT: failed insert changed state: blocks %d->%d FreeSpace %d->%d ManagedSpaceSize %d->%d", nb, len(fh.DirectBlocks), before.FreeSpace, fh.Header.FreeSpace, before.ManagedSpaceSize, fh.Header.ManagedSpaceSize)
			}
		}
		n++
	}
}
