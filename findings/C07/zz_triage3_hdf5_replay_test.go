package hdf5

// Replays of the defects found while triaging the no-panic obligations of the hyperslab / chunk readers.
// Every test builds a small, well-formed file with the library's own writer, patches a few bytes of the dataset's
// object header (what an attacker-supplied file may contain), opens it with Open and calls the public reader.
// Each test PASSES while the defect is present (the panic is recovered and logged) and fails once it is repaired.

import (
	"encoding/binary"
	"os"
	"path/filepath"
	
	"runtime/debug"
	"strings"
	"testing"
)

// t3Msg is the position of one message of a version-2 object header inside the file image.
type t3Msg struct {
	typ     byte
	hdrOff  int // offset of the message header (type byte)
	dataOff int // offset of the message body
	size    int
}

// t3WriteFile writes a file with one dataset "/data" and returns its path.
func t3WriteFile(t *testing.T, dtype Datatype, dims []uint64, data interface{}, attr bool, opts ...DatasetOption) string {
	t.Helper()
	filename := filepath.Join(t.TempDir(), "triage.h5")
	fw, err := CreateForWrite(filename, CreateTruncate)
	if err != nil {
		t.Fatalf("CreateForWrite: %v", err)
	}
	dw, err := fw.CreateDataset("/data", dtype, dims, opts...)
	if err != nil {
		t.Fatalf("CreateDataset: %v", err)
	}
	if err := dw.Write(data); err != nil {
		t.Fatalf("Write: %v", err)
	}
	if attr {
		if err := dw.WriteAttribute("a", []int64{1, 2, 3, 4, 5, 6, 7, 8}); err != nil {
			t.Fatalf("WriteAttribute: %v", err)
		}
	}
	if err := fw.Close(); err != nil {
		t.Fatalf("Close: %v", err)
	}
	return filename
}

// t3DatasetAddr opens the file and returns the object header address of "/data".
func t3DatasetAddr(t *testing.T, filename string) uint64 {
	t.Helper()
	f, err := Open(filename)
	if err != nil {
		t.Fatalf("Open (unpatched): %v", err)
	}
	defer func() { _ = f.Close() }()
	ds, ok := findDatasetByName(f, "data")
	if !ok {
		t.Fatalf("dataset not found")
	}
	return ds.address
}

// t3Messages lists the messages of the first chunk of the version-2 object header at addr.
func t3Messages(t *testing.T, img []byte, addr uint64) []t3Msg {
	t.Helper()
	p := int(addr)
	if string(img[p:p+4]) != "OHDR" || img[p+4] != 2 {
		t.Fatalf("no v2 object header at %d", addr)
	}
	flags := img[p+5]
	p += 6
	if flags&0x20 != 0 {
		p += 16
	}
	if flags&0x10 != 0 {
		p += 4
	}
	szLen := 1 << (flags & 3)
	chunk := 0
	for k := 0; k < szLen; k++ {
		chunk |= int(img[p+k]) << (8 * k)
	}
	p += szLen
	end := p + chunk
	var out []t3Msg
	for p+4 <= end && p+4 <= len(img) {
		m := t3Msg{typ: img[p], hdrOff: p, size: int(binary.LittleEndian.Uint16(img[p+1 : p+3]))}
		p += 4
		if flags&0x04 != 0 {
			p += 2
		}
		m.dataOff = p
		p += m.size
		out = append(out, m)
	}
	return out
}

func t3Find(t *testing.T, msgs []t3Msg, typ byte) t3Msg {
	t.Helper()
	for _, m := range msgs {
		if m.typ == typ {
			return m
		}
	}
	t.Fatalf("message type %d not found in %+v", typ, msgs)
	return t3Msg{}
}

// t3OpenPatched applies patch to the file image, writes it back and opens the dataset.
func t3OpenPatched(t *testing.T, filename string, patch func(img []byte, msgs []t3Msg)) (*File, *Dataset) {
	t.Helper()
	addr := t3DatasetAddr(t, filename)
	img, err := os.ReadFile(filename)
	if err != nil {
		t.Fatal(err)
	}
	patch(img, t3Messages(t, img, addr))
	if err := os.WriteFile(filename, img, 0o600); err != nil {
		t.Fatal(err)
	}
	f, err := Open(filename)
	if err != nil {
		t.Fatalf("Open (patched): %v", err)
	}
	ds, ok := findDatasetByName(f, "data")
	if !ok {
		t.Fatalf("dataset not found in patched file")
	}
	return f, ds
}

// t3ExpectPanic runs fn and requires a panic whose message contains want, raised inside function where.
func t3ExpectPanic(t *testing.T, where, want string, fn func() (interface{}, error)) {
	t.Helper()
	defer func() {
		r := recover()
		if r == nil {
			return
		}
		msg := ""
		switch v := r.(type) {
		case error:
			msg = v.Error()
		case string:
			msg = v
		}
		if !strings.Contains(msg, want) {
			t.Fatalf("panic %q does not contain %q", msg, want)
		}
		if stack := string(debug.Stack()); !strings.Contains(stack, where+"(") {
			t.Fatalf("panic %q raised outside %s:\n%s", msg, where, stack)
		}
		t.Logf("REPRODUCED: panic in %s: %s", where, msg)
	}()
	res, err := fn()
	t.Fatalf("no panic: result=%T err=%v", res, err)
}


// t3ChunkedFile: 1-D float64 dataset of 4 elements in two chunks of 2 (layout v3, chunk B-tree v1).
func t3ChunkedFile(t *testing.T) string {
	t.Helper()
	return t3WriteFile(t, Float64, []uint64{4}, []float64{1, 2, 3, 4}, false, WithChunkDims([]uint64{2}))
}

// Chunk size 1 in the layout message, dataspace 2^50 elements. The selection has only TWO elements (count 2, stride
// 2^50-1, block 1), so every element/byte limit added in the first pass (MaxHyperslabElements, maxHyperslabBytes)
// is satisfied, but the bounding box of the selection overlaps 2^50 chunks: generateChunkCoordinates multiplies the
// per-dimension chunk counts without bound and allocates make([][]uint64, 0, 2^50).
func TestTriage3_readHyperslabChunked_1(t *testing.T) {
	f, ds := t3OpenPatched(t, t3ChunkedFile(t), func(img []byte, msgs []t3Msg) {
		m := t3Find(t, msgs, 1)
		binary.LittleEndian.PutUint64(img[m.dataOff+8:], 1<<50)
		l := t3Find(t, msgs, 8)
		binary.LittleEndian.PutUint32(img[l.dataOff+11:], 1)
	})
	defer func() { _ = f.Close() }()
	t3ExpectPanic(t, "generateChunkCoordinates", "makeslice: cap out of range", func() (interface{}, error) {
		return ds.ReadHyperslab(&HyperslabSelection{Start: []uint64{0}, Count: []uint64{2}, Stride: []uint64{1<<50 - 1}, Block: []uint64{1}})
	})
}
