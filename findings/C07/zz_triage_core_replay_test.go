package core

import (
	"bytes"
	"encoding/binary"
	"io"
	"testing"
)

func triageSB() *Superblock {
	return &Superblock{Version: 2, OffsetSize: 8, LengthSize: 8, Endianness: binary.LittleEndian}
}

// triageExpectPanic runs f; the test passes iff f panics.
func triageExpectPanic(t *testing.T, what string, f func()) {
	t.Helper()
	defer func() {
		if r := recover(); r != nil {
			t.Logf("REPRODUCED: %s: %v", what, r)
			return
		}
		t.Fatalf("no panic: %s", what)
	}()
	f()
}

// ---- Attribute.ReadValue ----------------------------------------------------------------------------------

// Fixed-string attribute whose dataspace says 2^62 elements (one 8-byte dimension field in the attribute message)
// while the message carries 1 data byte: make([]string, totalElements) runs before any size check.
func TestTriage_ReadValue_1(t *testing.T) {
	a := &Attribute{
		Name:      "a",
		Datatype:  &DatatypeMessage{Class: DatatypeString, Size: 1},
		Dataspace: &DataspaceMessage{Version: 1, Type: DataspaceSimple, Dimensions: []uint64{1 << 62}},
		Data:      []byte{'x'},
	}
	triageExpectPanic(t, "Attribute.ReadValue allocates make([]string, 2^62) from the dataspace dimensions", func() {
		_, err := a.ReadValue()
		t.Logf("returned err=%v", err)
	})
}

// ---- ReadGlobalHeapCollection -----------------------------------------------------------------------------

func triageGCOL(collectionSize uint64, body []byte) []byte {
	b := make([]byte, 16)
	copy(b, "GCOL")
	b[4] = 1
	binary.LittleEndian.PutUint64(b[8:], collectionSize)
	return append(b, body...)
}

// Collection size field 2^63: make([]byte, collectionSize) panics.
func TestTriage_ReadGlobalHeapCollection_1(t *testing.T) {
	file := triageGCOL(1<<63, nil)
	triageExpectPanic(t, "ReadGlobalHeapCollection allocates the 64-bit collection size field unchecked", func() {
		_, err := ReadGlobalHeapCollection(bytes.NewReader(file), 0, 8)
		t.Logf("returned err=%v", err)
	})
}

// Free-space object (ID 0) with size 2^63: offset += int(alignedSize) goes negative and the next
// collectionData[offset:offset+2] panics.
func TestTriage_ReadGlobalHeapCollection_2(t *testing.T) {
	obj := make([]byte, 32)
	binary.LittleEndian.PutUint64(obj[8:], 1<<63) // object 0 (free space), size 2^63
	file := triageGCOL(16+32, obj)
	triageExpectPanic(t, "ReadGlobalHeapCollection: free-space object of size 2^63 makes the parse offset negative", func() {
		_, err := ReadGlobalHeapCollection(bytes.NewReader(file), 0, 8)
		t.Logf("returned err=%v", err)
	})
}

// Object 1 with size 2^64-8: int(objSize) == -8, the "extends beyond collection" check passes and
// make([]byte, objSize) panics.
func TestTriage_ReadGlobalHeapCollection_3(t *testing.T) {
	obj := make([]byte, 32)
	binary.LittleEndian.PutUint16(obj[0:], 1)
	binary.LittleEndian.PutUint64(obj[8:], 0xFFFFFFFFFFFFFFF8)
	file := triageGCOL(16+32, obj)
	triageExpectPanic(t, "ReadGlobalHeapCollection: object size 2^64-8 passes the bounds check as -8", func() {
		_, err := ReadGlobalHeapCollection(bytes.NewReader(file), 0, 8)
		t.Logf("returned err=%v", err)
	})
}

// ---- chunk B-tree -----------------------------------------------------------------------------------------

type triageZeroReader struct{ prefix []byte }

func (z triageZeroReader) ReadAt(p []byte, off int64) (int, error) {
	for i := range p {
		p[i] = 0
	}
	if off >= 0 && off < int64(len(z.prefix)) {
		copy(p, z.prefix[off:])
	}
	return len(p), nil
}

func triageTreeHeader(level uint8, entries uint16) []byte {
	h := make([]byte, 24)
	copy(h, "TREE")
	h[4] = 1
	h[5] = level
	binary.LittleEndian.PutUint16(h[6:], entries)
	return h
}

// Node header with EntriesUsed = 65535: make([]ChunkKey, node.EntriesUsed+1) is computed in uint16 and wraps
// to length 0, node.Keys[0] panics.
func TestTriage_ParseBTreeV1Node_1(t *testing.T) {
	r := triageZeroReader{prefix: triageTreeHeader(0, 0xFFFF)}
	triageExpectPanic(t, "ParseBTreeV1Node: EntriesUsed=65535 wraps EntriesUsed+1 to 0 keys", func() {
		_, err := ParseBTreeV1Node(r, 0, 8, 1, []uint64{4})
		t.Logf("returned err=%v", err)
	})
}

// triageChunkFile: a leaf chunk B-tree at address 0 with one entry whose key has the given byte offsets (one per
// chunk dimension), pointing at `chunk` stored at address 4096.
func triageChunkFile(byteOffsets []uint64, chunk []byte) []byte {
	f := triageTreeHeader(0, 1)
	key := make([]byte, 8+8*len(byteOffsets))
	binary.LittleEndian.PutUint32(key[0:], uint32(len(chunk)))
	for i, o := range byteOffsets {
		binary.LittleEndian.PutUint64(key[8+8*i:], o)
	}
	f = append(f, key...)
	child := make([]byte, 8)
	binary.LittleEndian.PutUint64(child, 4096)
	f = append(f, child...)
	f = append(f, make([]byte, len(key))...) // final key
	f = append(f, make([]byte, 4096-len(f))...)
	return append(f, chunk...)
}

// Chunked layout with 1 chunk dimension, dataspace of rank 3: layout.ChunkSize[:len(dataDims)] panics.
func TestTriage_readChunkedData_1(t *testing.T) {
	file := triageChunkFile([]uint64{0}, make([]byte, 8))
	layout := &DataLayoutMessage{Version: 3, Class: LayoutChunked, DataAddress: 0, ChunkSize: []uint64{4}}
	ds := &DataspaceMessage{Version: 1, Type: DataspaceSimple, Dimensions: []uint64{2, 2, 2}}
	dt := &DatatypeMessage{Class: DatatypeFixed, Size: 1}
	triageExpectPanic(t, "readChunkedData: dataspace rank 3 > chunk rank 1", func() {
		_, err := readChunkedData(bytes.NewReader(file), layout, ds, dt, triageSB(), nil)
		t.Logf("returned err=%v", err)
	})
}

// Chunked layout combined with a scalar dataspace (rank 0): copyNDChunk indexes chunkStrides[ndims-1] = [-1].
func TestTriage_copyNDChunk_1(t *testing.T) {
	file := triageChunkFile([]uint64{0}, make([]byte, 8))
	layout := &DataLayoutMessage{Version: 3, Class: LayoutChunked, DataAddress: 0, ChunkSize: []uint64{4}}
	ds := &DataspaceMessage{Version: 1, Type: DataspaceScalar}
	dt := &DatatypeMessage{Class: DatatypeFixed, Size: 1}
	triageExpectPanic(t, "readChunkedData/copyNDChunk: chunked dataset with scalar dataspace", func() {
		_, err := readChunkedData(bytes.NewReader(file), layout, ds, dt, triageSB(), nil)
		t.Logf("returned err=%v", err)
	})
}

// Chunk key with byte offset 2^64-4 (chunk dimension 4): scaled coordinate 2^62-1, startPos = 2^64-4,
// startPos+maxCopy wraps to 0 so no clipping, dataOffset+numBytes wraps to 0 and passes the bounds check,
// fullData[2^64-4 : 0] panics.
func TestTriage_copyNDChunkRecursive_1(t *testing.T) {
	file := triageChunkFile([]uint64{0xFFFFFFFFFFFFFFFC}, make([]byte, 4))
	layout := &DataLayoutMessage{Version: 3, Class: LayoutChunked, DataAddress: 0, ChunkSize: []uint64{4}}
	ds := &DataspaceMessage{Version: 1, Type: DataspaceSimple, Dimensions: []uint64{16}}
	dt := &DatatypeMessage{Class: DatatypeFixed, Size: 1}
	triageExpectPanic(t, "readChunkedData/copyNDChunkRecursive: chunk coordinate 2^64-4 wraps the destination offset", func() {
		_, err := readChunkedData(bytes.NewReader(file), layout, ds, dt, triageSB(), nil)
		t.Logf("returned err=%v", err)
	})
}

// ---- filter pipeline --------------------------------------------------------------------------------------

// Version 1 pipeline, one filter, name length 0xFFF9: the padded length is computed in uint16 and wraps to 0, the
// truncation check passes and data[offset:offset+65529] panics.
func TestTriage_ParseFilterPipelineMessage_1(t *testing.T) {
	data := make([]byte, 24)
	data[0] = 1 // version
	data[1] = 1 // one filter
	binary.LittleEndian.PutUint16(data[8:], 1)       // filter id
	binary.LittleEndian.PutUint16(data[10:], 0xFFF9) // name length
	triageExpectPanic(t, "ParseFilterPipelineMessage: name length 0xFFF9 wraps the padded length to 0", func() {
		_, err := ParseFilterPipelineMessage(data)
		t.Logf("returned err=%v", err)
	})
}

// LZF filter with cd_values[2] = 2^30+1: a 2-byte chunk is padded to 1 GiB (the field is 32 bits: up to 4 GiB per
// chunk) without any check against the chunk size of the layout or the library's own 1 GiB chunk limit.
func TestTriage_ApplyFilters_1(t *testing.T) {
	fp := &FilterPipelineMessage{Version: 2, NumFilters: 1, Filters: []Filter{{ID: FilterLZF, NumClientData: 3, ClientData: []uint32{0, 0, 1<<30 + 1}}}}
	out, err := fp.ApplyFilters([]byte{0x00, 'a'})
	if err != nil || len(out) != 1<<30+1 {
		t.Fatalf("no amplification: len=%d err=%v", len(out), err)
	}
	t.Logf("REPRODUCED: ApplyFilters turned a 2-byte chunk into %d bytes on the word of cd_values[2]", len(out))
}

// ---- element-count allocations ----------------------------------------------------------------------------

// Compact layout (raw data inside the message), dataspace dimension 2^62: the converters allocate numElements entries
// before looking at the data.
func TestTriage_convertToStrings_1(t *testing.T) {
	dt := &DatatypeMessage{Class: DatatypeString, Size: 1}
	triageExpectPanic(t, "convertToStrings: make([]string, 2^62)", func() {
		_, err := convertToStrings([]byte{'x'}, dt, 1<<62)
		t.Logf("returned err=%v", err)
	})
}

func TestTriage_convertToFloat64_1(t *testing.T) {
	dt := &DatatypeMessage{Class: DatatypeFloat, Size: 8}
	triageExpectPanic(t, "convertToFloat64: make([]float64, 2^62)", func() {
		_, err := convertToFloat64(make([]byte, 8), dt, 1<<62)
		t.Logf("returned err=%v", err)
	})
}

func TestTriage_parseCompoundData_1(t *testing.T) {
	ct := &CompoundType{Size: 4, Members: []CompoundMember{{Name: "x", Offset: 0, Type: &DatatypeMessage{Class: DatatypeFixed, Size: 4}}}}
	triageExpectPanic(t, "parseCompoundData: make([]CompoundValue, 2^62)", func() {
		_, err := parseCompoundData(make([]byte, 4), ct, 1<<62, nil, triageSB())
		t.Logf("returned err=%v", err)
	})
}

// Compound member whose byte offset (a 32-bit field of the datatype message) lies beyond the compound size.
func TestTriage_parseCompoundData_2(t *testing.T) {
	ct := &CompoundType{Size: 4, Members: []CompoundMember{{Name: "x", Offset: 100, Type: &DatatypeMessage{Class: DatatypeFixed, Size: 4}}}}
	triageExpectPanic(t, "parseCompoundData: member offset 100 in a 4-byte compound", func() {
		_, err := parseCompoundData(make([]byte, 4), ct, 1, nil, triageSB())
		t.Logf("returned err=%v", err)
	})
}

// ---- whole-dataset readers: contiguous layout, size = product of dimensions * element size ----------------

func triageDatasetHeader(t *testing.T, dt *DatatypeMessage, dims []uint64) *ObjectHeader {
	t.Helper()
	dtb, err := EncodeDatatypeMessage(dt)
	if err != nil {
		t.Fatal(err)
	}
	dsb, err := EncodeDataspaceMessage(dims, nil)
	if err != nil {
		t.Fatal(err)
	}
	lb, err := EncodeLayoutMessage(LayoutContiguous, 8, 64, triageSB(), nil)
	if err != nil {
		t.Fatal(err)
	}
	return &ObjectHeader{Messages: []*HeaderMessage{
		{Type: MsgDatatype, Data: dtb}, {Type: MsgDataspace, Data: dsb}, {Type: MsgDataLayout, Data: lb},
	}}
}

func TestTriage_ReadDatasetFloat64_1(t *testing.T) {
	h := triageDatasetHeader(t, &DatatypeMessage{Class: DatatypeFloat, Size: 8, ClassBitField: 0x20, Properties: []byte{0, 0, 64, 0, 52, 11, 0, 52, 0xFF, 0x03, 0, 0}}, []uint64{1 << 60})
	triageExpectPanic(t, "ReadDatasetFloat64: contiguous dataset with dimension 2^60 -> make([]byte, 2^63)", func() {
		_, err := ReadDatasetFloat64(bytes.NewReader(make([]byte, 128)), h, triageSB())
		t.Logf("returned err=%v", err)
	})
}

func TestTriage_ReadDatasetStrings_1(t *testing.T) {
	h := triageDatasetHeader(t, &DatatypeMessage{Class: DatatypeString, Size: 2}, []uint64{1 << 62})
	triageExpectPanic(t, "ReadDatasetStrings: contiguous dataset with dimension 2^62 -> make([]byte, 2^63)", func() {
		_, err := ReadDatasetStrings(bytes.NewReader(make([]byte, 128)), h, triageSB())
		t.Logf("returned err=%v", err)
	})
}

// ---- fractal heap object ----------------------------------------------------------------------------------

type triageSizeRecorder struct {
	file []byte
	max  int
}

func (s *triageSizeRecorder) ReadAt(p []byte, off int64) (int, error) {
	if len(p) > s.max {
		s.max = len(p)
	}
	if off < 0 || off >= int64(len(s.file)) {
		return 0, io.EOF
	}
	n := copy(p, s.file[off:])
	if n < len(p) {
		return n, io.EOF
	}
	return n, nil
}

// The object length comes from the (up to 6) length bytes of a 7-byte heap ID; readHeapObject allocates it before
// reading: here 2^28 bytes for a 64-byte file (2^48-1 is possible, which is a fatal out-of-memory, not an error).
func TestTriage_readHeapObject_1(t *testing.T) {
	file := make([]byte, 64)
	copy(file, "FHDB")
	r := &triageSizeRecorder{file: file}
	hdr := &fractalHeapHeaderRaw{HeapOffsetSize: 2, HeapLengthSize: 4}
	_, err := readHeapObject(r, 0, 0, 1<<28, triageSB(), hdr)
	if r.max != 1<<28 {
		t.Fatalf("no oversized allocation: max buffer %d, err=%v", r.max, err)
	}
	t.Logf("REPRODUCED: readHeapObject allocated %d bytes for an object in a %d-byte file (err=%v)", r.max, len(file), err)
}
