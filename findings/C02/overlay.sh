#!/bin/bash
d=$(mktemp -d); trap "rm -rf $d" EXIT
echo "{\"Replace\":{\"/repo/internal/structures/zz_attrmod_replay_test.go\":\"/verif/findings/C02/zz_attrmod_replay_test.go\"}}" > $d/ov.json
cd /repo/internal/structures && go test -overlay $d/ov.json -vet=off -count=1 -run 'TestReplayModifyDense' -v . 2>&1 | tail -12
