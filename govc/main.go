package main

import (
	"path/filepath"
	"os/exec"
	"encoding/json"
	"flag"
	"fmt"
	"os"
	"regexp"
	"sort"
	"strings"
	"time"

	"golang.org/x/tools/go/ssa"
)

func main() {
	if len(os.Args) < 2 {
		fmt.Fprintln(os.Stderr, "usage: govc <sweep|check|selftest|list> ...")
		os.Exit(2)
	}
	switch os.Args[1] {
	case "sweep":
		cmdSweep(os.Args[2:])
	case "check":
		cmdCheck(os.Args[2:])
	case "list":
		cmdList(os.Args[2:])
	case "replay":
		cmdReplay(os.Args[2:])
	default:
		fmt.Fprintln(os.Stderr, "unknown command", os.Args[1])
		os.Exit(2)
	}
}

func mustEnv(repo string) *Env {
	// go/packages shells out to `go list`: make sure the matching toolchain is first on PATH
	os.Setenv("PATH", "/opt/veriftools/go1.26.8/bin:"+os.Getenv("PATH"))
	os.Setenv("GOTOOLCHAIN", "local")
	os.Setenv("GOFLAGS", "-mod=mod")
	os.Setenv("GOPROXY", "off")
	e, err := loadEnv(repo)
	if err != nil {
		fmt.Fprintln(os.Stderr, "load:", err)
		os.Exit(3)
	}
	if err := e.loadContracts(); err != nil {
		fmt.Fprintln(os.Stderr, "contracts:", err)
		os.Exit(3)
	}
	return e
}

func cmdList(args []string) {
	fs := flag.NewFlagSet("list", flag.ExitOnError)
	repo := fs.String("repo", "/repo", "repository")
	pat := fs.String("f", ".", "regexp on function names")
	fs.Parse(args)
	e := mustEnv(*repo)
	re := regexp.MustCompile(*pat)
	var ns []string
	for n := range e.funcs {
		if re.MatchString(n) {
			ns = append(ns, n)
		}
	}
	sort.Strings(ns)
	for _, n := range ns {
		fmt.Println(n)
	}
}

// cmdSweep: developer command — verify the functions matching a regexp and print every obligation.
func cmdSweep(args []string) {
	fs := flag.NewFlagSet("sweep", flag.ExitOnError)
	repo := fs.String("repo", "/repo", "repository")
	pat := fs.String("f", ".", "regexp on function names")
	to := fs.Int("t", 10, "timeout seconds")
	verbose := fs.Bool("v", false, "print scripts of failed obligations")
	kinds := fs.String("kinds", "", "extra obligation kinds (comma separated)")
	dump := fs.String("dump", "", "directory to dump scripts of failed obligations")
	lem := fs.String("l", "", "regexp on lemma names (verified in addition)")
	fs.Parse(args)
	t0 := time.Now()
	e := mustEnv(*repo)
	fmt.Fprintf(os.Stderr, "loaded in %.1fs, %d functions, %d contracts\n", time.Since(t0).Seconds(), len(e.funcs), len(e.contracts))
	re := regexp.MustCompile(*pat)
	var ns []string
	for n := range e.funcs {
		if re.MatchString(n) {
			ns = append(ns, n)
		}
	}
	sort.Strings(ns)
	var extra []string
	if *kinds != "" {
		extra = strings.Split(*kinds, ",")
	}
	var fns []*ssa.Function
	for _, n := range ns {
		fns = append(fns, e.funcs[n])
	}
	var lems []*Lemma
	if *lem != "" {
		lre := regexp.MustCompile(*lem)
		for _, lm := range e.lemmas {
			if lre.MatchString(lm.Name) {
				lems = append(lems, lm)
			}
		}
	}
	results := e.generateAll(fns, lems, extra)
	fmt.Fprintf(os.Stderr, "generated in %.1fs\n", time.Since(t0).Seconds())
	solveAll(results, solveCfg{quickS: 3, fullS: *to, workers: 16})
	nd, nf := 0, 0
	for _, r := range results {
		if r.Fatal != "" {
			fmt.Printf("FATAL %s: %s\n", r.Func, r.Fatal)
			continue
		}
		for _, ob := range r.Obs {
			if ob.Status == "discharged" || ob.Status == "cover-ok" {
				nd++
				if *verbose {
					fmt.Printf("ok    %-70s %s %.2fs\n", ob.Name, ob.Backend, ob.Time)
				}
				continue
			}
			nf++
			fmt.Printf("%-14s %s  [%s] %s %.2fs %v\n", ob.Status, ob.Name, ob.Pos, ob.Backend, ob.Time, ob.Model)
			if *dump != "" {
				os.MkdirAll(*dump, 0o755)
				nm := sanitize(ob.Name)
				if len(nm) > 150 {
					nm = nm[:150]
				}
				os.WriteFile(fmt.Sprintf("%s/%s.smt2", *dump, nm), []byte(ob.Script), 0o644)
				if ob.InstScript != "" {
					os.WriteFile(fmt.Sprintf("%s/%s.inst.smt2", *dump, nm), []byte(ob.InstScript), 0o644)
				}
			}
		}
		if len(r.Partial) > 0 && *verbose {
			fmt.Printf("  partial %s: %v\n", r.Func, r.Partial)
		}
	}
	fmt.Printf("functions=%d discharged=%d failed=%d wall=%.1fs\n", len(results), nd, nf, time.Since(t0).Seconds())
}



// cmdReplay: `govc replay <file>` prints a recorded violation (obligation, reason, verifier output, model) and, when the
// record carries a generated test, runs that test again on the real code of /repo through `go test -overlay`
// (nothing is written into the repository). Exit status 1 if the failure reproduces.
func cmdReplay(args []string) {
	if len(args) != 1 {
		fmt.Fprintln(os.Stderr, "usage: govc replay <replay.json>")
		os.Exit(2)
	}
	b, err := os.ReadFile(args[0])
	if err != nil {
		fmt.Fprintln(os.Stderr, err)
		os.Exit(2)
	}
	var rec struct {
		Property   string            `json:"property"`
		Obligation string            `json:"obligation"`
		Function   string            `json:"function"`
		Position   string            `json:"position"`
		Reason     string            `json:"reason"`
		Status     string            `json:"status"`
		Output     string            `json:"verifier_output"`
		Model      map[string]string `json:"model"`
		Replay     *ReplayResult     `json:"replay"`
	}
	if err := json.Unmarshal(b, &rec); err != nil {
		fmt.Fprintln(os.Stderr, err)
		os.Exit(2)
	}
	fmt.Printf("property   %s\nobligation %s\nfunction   %s  %s\nstatus     %s (%s)\n", rec.Property, rec.Obligation, rec.Function, rec.Position, rec.Status, rec.Reason)
	if len(rec.Model) > 0 {
		fmt.Printf("model      %v\n", rec.Model)
	}
	if rec.Output != "" {
		fmt.Printf("verifier output:\n%s\n", rec.Output)
	}
	if rec.Replay == nil || rec.Replay.Test == "" {
		fmt.Println("no executable replay recorded for this obligation (no model, or no oracle for its kind)")
		return
	}
	dir := ""
	if i := strings.Index(rec.Replay.Cmd, "(in "); i >= 0 {
		dir = strings.TrimSuffix(rec.Replay.Cmd[i+4:], ")")
	}
	if dir == "" {
		fmt.Println("recorded test:\n" + rec.Replay.Test)
		return
	}
	tmp, _ := os.MkdirTemp("", "govc-replay-")
	defer os.RemoveAll(tmp)
	tf := filepath.Join(tmp, "zz_govc_replay_test.go")
	os.WriteFile(tf, []byte(rec.Replay.Test), 0o644)
	ov, _ := json.Marshal(map[string]map[string]string{"Replace": {filepath.Join(dir, "zz_govc_replay_test.go"): tf}})
	ovf := filepath.Join(tmp, "ov.json")
	os.WriteFile(ovf, ov, 0o644)
	cmd := exec.Command("bash", "-c", fmt.Sprintf("ulimit -v 8000000; cd %q && go test -overlay %q -vet=off -count=1 -timeout 60s -run '^TestGovcReplay$' . 2>&1 | tail -40", dir, ovf))
	cmd.Env = append(os.Environ(), "PATH=/opt/veriftools/go1.26.8/bin:"+os.Getenv("PATH"), "GOFLAGS=-mod=mod", "GOPROXY=off", "GOTOOLCHAIN=local", "GOCACHE="+filepath.Join(os.TempDir(), "govc-gocache"))
	out, _ := cmd.CombinedOutput()
	fmt.Printf("replay on the real code (%s):\n%s", dir, out)
	if strings.Contains(string(out), "GOVC-REPRODUCED") {
		fmt.Println("REPRODUCED")
		os.Exit(1)
	}
	fmt.Println("not reproduced")
}
