package main

// SMT term layer: terms are strings tagged with their sort; every named constant is
// registered in a Ctx so that queries can be sliced to the cone of influence.

import (
	"fmt"
	"math/big"
	"os"
	"sort"
	"strings"
)

const (
	SBool = "Bool"
	SInt  = "Int" // references / type tags / mathematical integers
	SF32  = "(_ FloatingPoint 8 24)"
	SF64  = "(_ FloatingPoint 11 53)"
)

// Integer mode of the current pass. In bit-vector mode (default) every Go integer is a bit-vector of
// its width. In int mode every Go integer is a mathematical Int confined to its type's range, and every
// arithmetic result carries a no-overflow obligation. The mode is a property of the whole pass
// (functions of the two modes are generated in separate passes).
var gInt bool
var SIdx = "(_ BitVec 64)"

func setIntMode(on bool) {
	gInt = on
	if on {
		SIdx = SInt
	} else {
		SIdx = "(_ BitVec 64)"
	}
}

// SBV: sort of a Go integer of width w in the current mode.
func SBV(w int) string {
	if gInt {
		return SInt
	}
	return fmt.Sprintf("(_ BitVec %d)", w)
}

// SBVraw: a real bit-vector sort regardless of mode (float bit patterns).
func SBVraw(w int) string { return fmt.Sprintf("(_ BitVec %d)", w) }

func pow2(k int) *big.Int { return new(big.Int).Lsh(big.NewInt(1), uint(k)) }

func intLitBig(v *big.Int) Term {
	if v.Sign() < 0 {
		return Term{SInt, "(- " + new(big.Int).Neg(v).String() + ")"}
	}
	return Term{SInt, v.String()}
}

// intLitVal parses an Int literal term.
func intLitVal(t Term) (*big.Int, bool) {
	s := t.T
	neg := false
	if strings.HasPrefix(s, "(- ") && strings.HasSuffix(s, ")") {
		neg = true
		s = s[3 : len(s)-1]
	}
	if s == "" || strings.ContainsAny(s, " ()") {
		return nil, false
	}
	for _, c := range s {
		if c < '0' || c > '9' {
			return nil, false
		}
	}
	v, ok := new(big.Int).SetString(s, 10)
	if !ok {
		return nil, false
	}
	if neg {
		v.Neg(v)
	}
	return v, true
}

// typeRange returns the inclusive range of a Go integer type of width w.
func typeRange(w int, signed bool) (*big.Int, *big.Int) {
	if signed {
		hi := new(big.Int).Sub(pow2(w-1), big.NewInt(1))
		lo := new(big.Int).Neg(pow2(w - 1))
		return lo, hi
	}
	return big.NewInt(0), new(big.Int).Sub(pow2(w), big.NewInt(1))
}

// inTypeRange: formula lo <= t <= hi (int mode only).
func inTypeRange(t Term, w int, signed bool) Term {
	lo, hi := typeRange(w, signed)
	return mkAnd(Term{SBool, "(<= " + intLitBig(lo).T + " " + t.T + ")"}, Term{SBool, "(<= " + t.T + " " + intLitBig(hi).T + ")"})
}
func SArr(i, e string) string {
	return "(Array " + i + " " + e + ")"
}

type Term struct {
	S string // sort
	T string // SMT-LIB text
}

func (t Term) String() string { return t.T }

func bvWidth(s string) int {
	var w int
	if _, err := fmt.Sscanf(s, "(_ BitVec %d)", &w); err == nil {
		return w
	}
	return 0
}
func isBV(s string) bool  { return strings.HasPrefix(s, "(_ BitVec ") }
func isFP(s string) bool  { return strings.HasPrefix(s, "(_ FloatingPoint ") }
func isArr(s string) bool { return strings.HasPrefix(s, "(Array ") }

// arrParts splits "(Array I E)" into I and E.
func arrParts(s string) (string, string) {
	if !isArr(s) {
		panic("arrParts: not an array sort: " + s)
	}
	body := s[len("(Array ") : len(s)-1]
	// first sort token
	depth := 0
	for i, c := range body {
		switch c {
		case '(':
			depth++
		case ')':
			depth--
		case ' ':
			if depth == 0 {
				return body[:i], body[i+1:]
			}
		}
	}
	panic("arrParts: malformed " + s)
}

func bvLit(t Term) (*big.Int, int, bool) {
	if t.S == SInt {
		if v, ok := intLitVal(t); ok {
			return v, 0, true
		}
		return nil, 0, false
	}
	if !strings.HasPrefix(t.T, "(_ bv") || strings.Count(t.T, "(") != 1 {
		return nil, 0, false
	}
	var vs string
	var w int
	if n, _ := fmt.Sscanf(t.T, "(_ bv%s %d)", &vs, &w); n < 1 {
		return nil, 0, false
	}
	f := strings.Fields(strings.TrimSuffix(strings.TrimPrefix(t.T, "(_ bv"), ")"))
	if len(f) != 2 {
		return nil, 0, false
	}
	v, ok := new(big.Int).SetString(f[0], 10)
	if !ok {
		return nil, 0, false
	}
	fmt.Sscanf(f[1], "%d", &w)
	return v, w, true
}

var intOpMap = map[string]string{
	"bvadd": "+", "bvsub": "-", "bvmul": "*",
	"bvule": "<=", "bvsle": "<=", "bvult": "<", "bvslt": "<", "bvuge": ">=", "bvsge": ">=", "bvugt": ">", "bvsgt": ">",
}

// goDivInt: Go's truncated division on mathematical integers.
func goDivInt(a, b Term) Term {
	if bv, ok := intLitVal(b); ok && bv.Sign() > 0 {
		if av, ok2 := intLitVal(a); ok2 {
			return intLitBig(new(big.Int).Quo(av, bv))
		}
		return Term{SInt, fmt.Sprintf("(ite (>= %s 0) (div %s %s) (- (div (- %s) %s)))", a.T, a.T, b.T, a.T, b.T)}
	}
	return Term{SInt, fmt.Sprintf("(ite (>= %s 0) (ite (> %s 0) (div %s %s) (- (div %s (- %s)))) (ite (> %s 0) (- (div (- %s) %s)) (div (- %s) (- %s))))",
		a.T, b.T, a.T, b.T, a.T, b.T, b.T, a.T, b.T, a.T, b.T)}
}

func appInt(sortOut string, op string, args []Term) (Term, bool) {
	if m, ok := intOpMap[op]; ok && len(args) == 2 {
		so := sortOut
		if so != SBool {
			so = SInt
		}
		return rawApp(so, m, args...), true
	}
	switch op {
	case "bvneg":
		if v, ok := intLitVal(args[0]); ok {
			return intLitBig(new(big.Int).Neg(v)), true
		}
		return rawApp(SInt, "-", args[0]), true
	case "bvudiv", "bvsdiv":
		return goDivInt(args[0], args[1]), true
	case "bvurem", "bvsrem":
		q := goDivInt(args[0], args[1])
		return Term{SInt, fmt.Sprintf("(- %s (* %s %s))", args[0].T, args[1].T, q.T)}, true
	case "bvand":
		// x & (2^k-1)  ==  x mod 2^k   (for non-negative x; callers guarantee via type range)
		for i := 0; i < 2; i++ {
			if m, ok := intLitVal(args[i]); ok && m.Sign() >= 0 {
				mp := new(big.Int).Add(m, big.NewInt(1))
				if mp.BitLen() > 0 && new(big.Int).And(mp, m).Sign() == 0 { // m+1 is a power of two
					return Term{SInt, fmt.Sprintf("(mod %s %s)", args[1-i].T, mp.String())}, true
				}
				// single-bit mask 2^k: (x div 2^k) mod 2 * 2^k
				if m.Sign() > 0 && new(big.Int).And(m, new(big.Int).Sub(m, big.NewInt(1))).Sign() == 0 {
					return Term{SInt, fmt.Sprintf("(* %s (mod (div %s %s) 2))", m.String(), args[1-i].T, m.String())}, true
				}
				// contiguous mask (2^a-1)<<b
				tz := int(m.TrailingZeroBits())
				sh := new(big.Int).Rsh(m, uint(tz))
				shp := new(big.Int).Add(sh, big.NewInt(1))
				if new(big.Int).And(shp, sh).Sign() == 0 {
					return Term{SInt, fmt.Sprintf("(* %s (mod (div %s %s) %s))", pow2(tz).String(), args[1-i].T, pow2(tz).String(), shp.String())}, true
				}
			}
		}
		return rawApp(SInt, "uf_bvand", args...), true
	case "bvor", "bvxor":
		// constants fold; with one non-negative constant mask m whose conjunction is arithmetic:
		//   a | m == a + m - (a & m),   a ^ m == a + m - 2*(a & m)      (non-negative operands: type range)
		av, aok := intLitVal(args[0])
		bv, bok := intLitVal(args[1])
		if aok && bok && av.Sign() >= 0 && bv.Sign() >= 0 {
			if op == "bvor" {
				return intLitBig(new(big.Int).Or(av, bv)), true
			}
			return intLitBig(new(big.Int).Xor(av, bv)), true
		}
		for i := 0; i < 2; i++ {
			m, ok := intLitVal(args[i])
			if !ok || m.Sign() < 0 {
				continue
			}
			if m.Sign() == 0 {
				return args[1-i], true
			}
			conj, _ := appInt(SInt, "bvand", []Term{args[1-i], args[i]})
			if strings.Contains(conj.T, "uf_bvand") {
				continue
			}
			k := "1"
			if op == "bvxor" {
				k = "2"
			}
			return Term{SInt, fmt.Sprintf("(- (+ %s %s) (* %s %s))", args[1-i].T, m.String(), k, conj.T)}, true
		}
		if op == "bvor" {
			return rawApp(SInt, "uf_bvor", args...), true
		}
		return rawApp(SInt, "uf_bvxor", args...), true
	case "bvnot":
		return rawApp(SInt, "uf_bvnot", args...), true
	case "bvshl":
		if k, ok := intLitVal(args[1]); ok && k.Sign() >= 0 && k.BitLen() < 16 {
			if a, aok := intLitVal(args[0]); aok {
				return intLitBig(new(big.Int).Lsh(a, uint(k.Int64()))), true
			}
			return Term{SInt, fmt.Sprintf("(* %s %s)", args[0].T, pow2(int(k.Int64())).String())}, true
		}
		return rawApp(SInt, "uf_bvshl", args...), true
	case "bvlshr", "bvashr":
		if k, ok := intLitVal(args[1]); ok && k.Sign() >= 0 && k.BitLen() < 16 {
			return Term{SInt, fmt.Sprintf("(div %s %s)", args[0].T, pow2(int(k.Int64())).String())}, true
		}
		return rawApp(SInt, "uf_bvshr", args...), true
	}
	return Term{}, false
}

// intModePreamble declares the uninterpreted stand-ins for bit operations in int mode.
const intModePreamble = "(declare-fun uf_bvand (Int Int) Int)\n(declare-fun uf_bvor (Int Int) Int)\n(declare-fun uf_bvxor (Int Int) Int)\n(declare-fun uf_bvnot (Int) Int)\n(declare-fun uf_bvshl (Int Int) Int)\n(declare-fun uf_bvshr (Int Int) Int)"

func rawApp(sortOut string, op string, args ...Term) Term {
	var sb strings.Builder
	sb.WriteByte('(')
	sb.WriteString(op)
	for _, a := range args {
		sb.WriteByte(' ')
		sb.WriteString(a.T)
	}
	sb.WriteByte(')')
	return Term{sortOut, sb.String()}
}

func app(sortOut string, op string, args ...Term) Term {
	if gInt && len(args) > 0 && args[0].S == SInt && strings.HasPrefix(op, "bv") {
		// constant folding first
		if len(args) == 2 {
			if a, ok := intLitVal(args[0]); ok {
				if b, ok2 := intLitVal(args[1]); ok2 {
					switch op {
					case "bvadd":
						return intLitBig(new(big.Int).Add(a, b))
					case "bvsub":
						return intLitBig(new(big.Int).Sub(a, b))
					case "bvmul":
						return intLitBig(new(big.Int).Mul(a, b))
					case "bvule", "bvsle":
						return mkBool(a.Cmp(b) <= 0)
					case "bvult", "bvslt":
						return mkBool(a.Cmp(b) < 0)
					case "bvuge", "bvsge":
						return mkBool(a.Cmp(b) >= 0)
					case "bvugt", "bvsgt":
						return mkBool(a.Cmp(b) > 0)
					}
				}
			}
			if b, ok := intLitVal(args[1]); ok && b.Sign() == 0 && (op == "bvadd" || op == "bvsub") {
				return args[0]
			}
			if a, ok := intLitVal(args[0]); ok && a.Sign() == 0 && op == "bvadd" {
				return args[1]
			}
		}
		if t, ok := appInt(sortOut, op, args); ok {
			return t
		}
	}
	// constant folding / identities for the common index arithmetic
	if len(args) == 2 && (op == "bvadd" || op == "bvsub") {
		a, wa, oka := bvLit(args[0])
		b, wb, okb := bvLit(args[1])
		switch {
		case oka && okb && wa == wb:
			if op == "bvadd" {
				return bvConst(wa, new(big.Int).Add(a, b))
			}
			return bvConst(wa, new(big.Int).Sub(a, b))
		case okb && b.Sign() == 0:
			return args[0]
		case oka && a.Sign() == 0 && op == "bvadd":
			return args[1]
		}
	}
	if len(args) == 2 && (op == "bvule" || op == "bvult" || op == "bvuge" || op == "bvugt") {
		a, wa, oka := bvLit(args[0])
		b, wb, okb := bvLit(args[1])
		if oka && okb && wa == wb {
			c := a.Cmp(b)
			switch op {
			case "bvule":
				return mkBool(c <= 0)
			case "bvult":
				return mkBool(c < 0)
			case "bvuge":
				return mkBool(c >= 0)
			case "bvugt":
				return mkBool(c > 0)
			}
		}
	}
	var sb strings.Builder
	sb.WriteByte('(')
	sb.WriteString(op)
	for _, a := range args {
		sb.WriteByte(' ')
		sb.WriteString(a.T)
	}
	sb.WriteByte(')')
	return Term{sortOut, sb.String()}
}

var (
	tTrue  = Term{SBool, "true"}
	tFalse = Term{SBool, "false"}
)

func mkBool(b bool) Term {
	if b {
		return tTrue
	}
	return tFalse
}

func mkAnd(ts ...Term) Term {
	var xs []Term
	for _, t := range ts {
		if t.T == "true" {
			continue
		}
		if t.T == "false" {
			return tFalse
		}
		xs = append(xs, t)
	}
	if len(xs) == 0 {
		return tTrue
	}
	if len(xs) == 1 {
		return xs[0]
	}
	return app(SBool, "and", xs...)
}
func mkOr(ts ...Term) Term {
	var xs []Term
	for _, t := range ts {
		if t.T == "false" {
			continue
		}
		if t.T == "true" {
			return tTrue
		}
		xs = append(xs, t)
	}
	if len(xs) == 0 {
		return tFalse
	}
	if len(xs) == 1 {
		return xs[0]
	}
	return app(SBool, "or", xs...)
}
func mkNot(t Term) Term {
	if t.T == "true" {
		return tFalse
	}
	if t.T == "false" {
		return tTrue
	}
	if strings.HasPrefix(t.T, "(not ") {
		return Term{SBool, t.T[5 : len(t.T)-1]}
	}
	return app(SBool, "not", t)
}
func mkImp(a, b Term) Term {
	if a.T == "true" {
		return b
	}
	if a.T == "false" || b.T == "true" {
		return tTrue
	}
	return app(SBool, "=>", a, b)
}
func mkEq(a, b Term) Term {
	if a.S != b.S {
		panic(fmt.Sprintf("mkEq: sort mismatch %s (%s) vs %s (%s)", a.S, a.T, b.S, b.T))
	}
	if a.T == b.T {
		return tTrue
	}
	if isFP(a.S) {
		// structural equality on FP values (NaN = NaN) — used for definitions only.
		return app(SBool, "=", a, b)
	}
	return app(SBool, "=", a, b)
}
func mkIte(c, a, b Term) Term {
	if a.S != b.S {
		panic(fmt.Sprintf("mkIte: sort mismatch %s vs %s (%s | %s)", a.S, b.S, a.T, b.T))
	}
	if c.T == "true" {
		return a
	}
	if c.T == "false" {
		return b
	}
	if a.T == b.T {
		return a
	}
	return app(a.S, "ite", c, a, b)
}

func bvConst(w int, v *big.Int) Term {
	if gInt {
		return intLitBig(v)
	}
	m := new(big.Int).Lsh(big.NewInt(1), uint(w))
	x := new(big.Int).Mod(v, m)
	if x.Sign() < 0 {
		x.Add(x, m)
	}
	return Term{SBV(w), fmt.Sprintf("(_ bv%s %d)", x.String(), w)}
}
func bvInt(w int, v int64) Term { return bvConst(w, big.NewInt(v)) }
func idxInt(v int64) Term       { return bvInt(64, v) }
func intConst(v int64) Term {
	if v < 0 {
		return Term{SInt, fmt.Sprintf("(- %d)", -v)}
	}
	return Term{SInt, fmt.Sprintf("%d", v)}
}

func mkSelect(a, i Term) Term {
	is, es := arrParts(a.S)
	if is != i.S {
		panic(fmt.Sprintf("mkSelect: index sort %s vs array %s", i.S, a.S))
	}
	return app(es, "select", a, i)
}
func mkStore(a, i, v Term) Term {
	is, es := arrParts(a.S)
	if is != i.S || es != v.S {
		panic(fmt.Sprintf("mkStore: sorts arr=%s idx=%s val=%s", a.S, i.S, v.S))
	}
	return app(a.S, "store", a, i, v)
}
func constArr(s string, v Term) Term {
	return Term{s, "((as const " + s + ") " + v.T + ")"}
}

// zeroOf returns the all-zero value of a sort.
func zeroOf(s string) Term {
	switch {
	case s == SBool:
		return tFalse
	case s == SInt:
		return intConst(0)
	case isBV(s):
		return Term{s, fmt.Sprintf("(_ bv0 %d)", bvWidth(s))}
	case isFP(s):
		return Term{s, "(_ +zero " + s[len("(_ FloatingPoint "):len(s)-1] + ")"}
	case isArr(s):
		_, e := arrParts(s)
		return constArr(s, zeroOf(e))
	}
	panic("zeroOf: " + s)
}

// updateNested stores v at base[idx0][idx1]... .
func updateNested(base Term, idxs []Term, v Term) Term {
	if len(idxs) == 0 {
		return v
	}
	inner := mkSelect(base, idxs[0])
	return mkStore(base, idxs[0], updateNested(inner, idxs[1:], v))
}
func selectNested(base Term, idxs []Term) Term {
	for _, i := range idxs {
		base = mkSelect(base, i)
	}
	return base
}

// ---------------------------------------------------------------------------
// Ctx: declarations with definitions and attached assumptions.

type Decl struct {
	Name    string
	Sort    string
	Def     *Term  // name = Def (total definition), nil for havoc
	Assumes []Term // type invariants / axioms attached to this symbol
	Quant   *QuantInfo
	seq     int
}

// QuantInfo: a Boolean symbol standing for a top-level quantified formula.
type QuantInfo struct {
	Exists bool
	Var    string // unique bound variable name (first variable)
	Sort   string
	Vars   []string // all bound variables (len >= 1)
	Sorts  []string
	Body   Term
	Range  bool // type-range axiom over select^n(arr, vars): instantiated at read index tuples only
}

// markRange flags a quantified symbol as a type-range axiom.
func (c *Ctx) markRange(q Term) Term {
	if d, ok := c.decls[q.T]; ok && d.Quant != nil {
		d.Quant.Range = true
	}
	return q
}

type Ctx struct {
	decls    map[string]*Decl
	n        int
	Preamble []string // raw SMT-LIB (spec functions)
	PreNames map[string]bool
	InstTerms []Term        // ground terms used to instantiate quantifiers in instantiation mode
	instSeen  map[string]bool
}

// AddInst registers a ground instantiation term.
func (c *Ctx) AddInst(t Term) {
	if c.instSeen == nil {
		c.instSeen = map[string]bool{}
	}
	if c.instSeen[t.T] || len(c.InstTerms) > 400 {
		return
	}
	c.instSeen[t.T] = true
	c.InstTerms = append(c.InstTerms, t)
}

// Quant declares a Boolean symbol equivalent to (forall/exists ((v sort)) body).
func (c *Ctx) Quant(exists bool, v, sortS string, body Term) Term {
	return c.QuantN(exists, []string{v}, []string{sortS}, body)
}

func (c *Ctx) QuantN(exists bool, vs, sorts []string, body Term) Term {
	c.n++
	name := fmt.Sprintf("Q!%d", c.n)
	c.decls[name] = &Decl{Name: name, Sort: SBool, Quant: &QuantInfo{Exists: exists, Var: vs[0], Sort: sorts[0], Vars: vs, Sorts: sorts, Body: body}, seq: c.n}
	return Term{SBool, name}
}

func (qi *QuantInfo) binders() string {
	var sb strings.Builder
	for i := range qi.Vars {
		fmt.Fprintf(&sb, "(%s %s)", qi.Vars[i], qi.Sorts[i])
	}
	return sb.String()
}

func (qi *QuantInfo) subst(terms []string) string {
	b := qi.Body.T
	for i, v := range qi.Vars {
		b = substToken(b, v, terms[i])
	}
	return b
}

// BoundVar returns a fresh unique bound-variable name.
func (c *Ctx) BoundVar(hint string) string {
	c.n++
	return fmt.Sprintf("%s!q%d", sanitize(hint), c.n)
}

func substToken(s, from, to string) string {
	var sb strings.Builder
	start := -1
	flush := func(end int) {
		if start >= 0 {
			tok := s[start:end]
			if tok == from {
				sb.WriteString(to)
			} else {
				sb.WriteString(tok)
			}
			start = -1
		}
	}
	for i := 0; i < len(s); i++ {
		ch := s[i]
		if ch == '(' || ch == ')' || ch == ' ' || ch == '\n' || ch == '\t' {
			flush(i)
			sb.WriteByte(ch)
		} else if start < 0 {
			start = i
		}
	}
	flush(len(s))
	return sb.String()
}

func NewCtx() *Ctx { return &Ctx{decls: map[string]*Decl{}, PreNames: map[string]bool{}} }

func sanitize(s string) string {
	var sb strings.Builder
	for _, c := range s {
		switch {
		case c >= 'a' && c <= 'z', c >= 'A' && c <= 'Z', c >= '0' && c <= '9', c == '_', c == '.', c == '$', c == '!':
			sb.WriteRune(c)
		case c == '#':
			sb.WriteByte('.')
		default:
			sb.WriteByte('_')
		}
	}
	return sb.String()
}

// Fresh declares an unconstrained constant.
func (c *Ctx) Fresh(hint, sortS string) Term {
	c.n++
	name := fmt.Sprintf("%s!%d", sanitize(hint), c.n)
	c.decls[name] = &Decl{Name: name, Sort: sortS, seq: c.n}
	return Term{sortS, name}
}

// Define declares name = t and returns the name (keeps terms small and shared).
func (c *Ctx) Define(hint string, t Term) Term {
	// do not name trivial terms
	if len(t.T) < 24 && !strings.ContainsAny(t.T, " ") {
		return t
	}
	if strings.HasPrefix(t.T, "(_ bv") && strings.Count(t.T, "(") == 1 {
		return t
	}
	c.n++
	name := fmt.Sprintf("%s!%d", sanitize(hint), c.n)
	tt := t
	c.decls[name] = &Decl{Name: name, Sort: t.S, Def: &tt, seq: c.n}
	return Term{t.S, name}
}

// Assume attaches an assumption to a declared symbol (included whenever the symbol is).
func (c *Ctx) Assume(sym Term, a Term) {
	d := c.decls[sym.T]
	if d == nil {
		panic("Assume on non-symbol " + sym.T)
	}
	d.Assumes = append(d.Assumes, a)
}

func tokens(s string, f func(string)) {
	start := -1
	for i := 0; i < len(s); i++ {
		c := s[i]
		if c == '(' || c == ')' || c == ' ' || c == '\n' || c == '\t' {
			if start >= 0 {
				f(s[start:i])
				start = -1
			}
		} else if start < 0 {
			start = i
		}
	}
	if start >= 0 {
		f(s[start:])
	}
}

// Script builds a query: sliced declarations + assertions of `asserts`.
// inst=false: quantified symbols are defined by real quantifiers.
// inst=true: every quantified symbol Q is replaced by sound consequences of its definition:
//   forall: Q => body[t] for every instantiation term t, and !Q => !body[sk] for a fresh skolem sk
//   (dually for exists). An unsat answer is therefore still valid; a sat answer may be spurious.
func (c *Ctx) Script(logic string, asserts []Term, inst bool) (string, bool) {
	need := map[string]bool{}
	var stack []string
	visit := func(s string) {
		tokens(s, func(tok string) {
			if d, ok := c.decls[tok]; ok && !need[tok] {
				need[tok] = true
				stack = append(stack, d.Name)
			}
		})
	}
	for _, a := range asserts {
		visit(a.T)
	}
	var quants []*Decl
	var instAsserts []string
	drain := func() {
		for len(stack) > 0 {
			n := stack[len(stack)-1]
			stack = stack[:len(stack)-1]
			d := c.decls[n]
			if d.Def != nil {
				visit(d.Def.T)
			}
			for _, a := range d.Assumes {
				visit(a.T)
			}
			if d.Quant != nil {
				quants = append(quants, d)
				if !inst {
					visit(d.Quant.Body.T)
				}
			}
		}
	}
	drain()
	if inst && len(quants) > 0 {
		// Instantiation terms per sort: registered ground terms, skolems, and (iteratively) the index
		// terms of array reads that appear in instantiated bodies — a bounded form of E-matching.
		termSet := map[string]map[string]bool{} // sort -> terms
		addTerm := func(sortS, t string) bool {
			m := termSet[sortS]
			if m == nil {
				m = map[string]bool{}
				termSet[sortS] = m
			}
			if m[t] || len(m) > 300 {
				return false
			}
			m[t] = true
			return true
		}
		if os.Getenv("GOVC_NO_PROG_TERMS") == "" {
			for _, t := range c.InstTerms {
				addTerm(t.S, t.T)
			}
		}
		maxRounds := 5
		if v := os.Getenv("GOVC_INST_ROUNDS"); v != "" {
			fmt.Sscanf(v, "%d", &maxRounds)
		}
		harvestRounds := 2
		if v := os.Getenv("GOVC_HARVEST_ROUNDS"); v != "" {
			fmt.Sscanf(v, "%d", &harvestRounds)
		}
		var harvest func(text string)
		harvest = func(text string) {
			for _, ix := range selectIndexTerms(text) {
				if s := c.guessSort(ix, quants); s != "" {
					addTerm(s, ix)
				}
			}
		}
		// index pairs (X, Y) of nested reads (select (select A X) Y): the only tuples a two-variable
		// type-range axiom is needed at
		var pairs [][2]string
		pairSeen := map[string]bool{}
		basePairs := harvest
		harvest = func(text string) {
			basePairs(text)
			for _, pr := range selectIndexPairs(text) {
				k := pr[0] + "|" + pr[1]
				if pairSeen[k] || len(pairs) > 1200 {
					continue
				}
				if c.guessSort(pr[0], quants) == "" || c.guessSort(pr[1], quants) == "" {
					continue
				}
				pairSeen[k] = true
				pairs = append(pairs, pr)
			}
		}
		for _, a := range asserts {
			harvest(a.T)
		}
		applied := map[string]bool{} // quant name + "|" + term
		skolemDone := map[string]bool{}
		skPrio := map[string]int{}
		total, totalRange := 0, 0
		for round := 0; round < maxRounds; round++ {
			progress := false
			// snapshot of quantifiers known so far
			qs := append([]*Decl{}, quants...)
			// skolemise every known quantifier first, so that each witness is available to all of them;
			// then instantiate the user's facts (one variable, then several) before the type-range axioms
			sort.SliceStable(qs, func(a, b int) bool {
				ra := func(d *Decl) int {
					switch {
					case d.Quant.Range:
						return 2
					case len(d.Quant.Vars) > 1:
						return 1
					}
					return 0
				}
				return ra(qs[a]) < ra(qs[b])
			})
			for pass := 0; pass < 2; pass++ {
			for _, q := range qs {
				qi := q.Quant
				sk := q.Name + "!sk"
				pos, neg := q.Name, "(not "+q.Name+")"
				if qi.Exists {
					pos, neg = neg, pos
				}
				if pass == 0 {
					if skolemDone[q.Name] {
						continue
					}
				}
				if pass == 0 && !skolemDone[q.Name] {
					skolemDone[q.Name] = true
					progress = true
					var sks []string
					for i := range qi.Vars {
						skn := sk
						if i > 0 {
							skn = fmt.Sprintf("%s%d", sk, i)
						}
						sks = append(sks, skn)
						addTerm(qi.Sorts[i], skn)
						if len(qi.Vars) > 1 {
							skPrio[skn] = 2
						} else {
							skPrio[skn] = 1
						}
					}
					bsk := qi.subst(sks)
					if qi.Exists {
						instAsserts = append(instAsserts, "(=> "+neg+" "+bsk+")")
					} else {
						instAsserts = append(instAsserts, "(=> "+neg+" (not "+bsk+"))")
					}
					visit(bsk)
					harvest(bsk)
				}
				if pass == 0 {
					continue
				}
				budget := &total
				if qi.Range {
					budget = &totalRange
				}
				// tuples of instantiation terms (cartesian product, capped)
				var tuples [][]string
				if qi.Range && len(qi.Vars) == 2 {
					for _, pr := range pairs {
						tuples = append(tuples, []string{pr[0], pr[1]})
					}
				} else {
				var lists [][]string
				for i := range qi.Vars {
					var ts []string
					for t := range termSet[qi.Sorts[i]] {
						ts = append(ts, t)
					}
					sort.Strings(ts)
					if len(qi.Vars) > 1 && len(ts) > 24 {
						// keep the skolems of multi-variable quantifiers (the witnesses a pairwise fact is
						// needed at), then other skolems, then the rest
						sort.SliceStable(ts, func(a, b int) bool { return skPrio[ts[a]] > skPrio[ts[b]] })
						ts = ts[:24]
					}
					lists = append(lists, ts)
				}
				var rec func(i int, cur []string)
				rec = func(i int, cur []string) {
					if len(tuples) > 1500 {
						return
					}
					if i == len(lists) {
						tuples = append(tuples, append([]string{}, cur...))
						return
					}
					for _, t := range lists[i] {
						rec(i+1, append(cur, t))
					}
				}
				rec(0, nil)
				}
				for _, tup := range tuples {
					key := q.Name + "|" + strings.Join(tup, "|")
					if applied[key] || *budget > 6000 {
						continue
					}
					applied[key] = true
					*budget++
					progress = true
					b := qi.subst(tup)
					if qi.Exists {
						instAsserts = append(instAsserts, "(=> "+pos+" (not "+b+"))")
					} else {
						instAsserts = append(instAsserts, "(=> "+pos+" "+b+")")
					}
					visit(b)
					if round < harvestRounds {
						harvest(b)
					}
				}
			}
			}
			drain()
			if !progress {
				break
			}
		}
	}
	var ds []*Decl
	for n := range need {
		ds = append(ds, c.decls[n])
	}
	sort.Slice(ds, func(i, j int) bool { return ds[i].seq < ds[j].seq })
	var sb strings.Builder
	if logic != "" {
		sb.WriteString("(set-logic " + logic + ")\n")
	}
	for _, p := range c.Preamble {
		sb.WriteString(p)
		sb.WriteByte('\n')
	}
	// skolems first (they may be referenced by instantiated bodies of earlier symbols)
	if inst {
		for _, q := range quants {
			for i := range q.Quant.Vars {
				if i == 0 {
					fmt.Fprintf(&sb, "(declare-const %s!sk %s)\n", q.Name, q.Quant.Sorts[i])
				} else {
					fmt.Fprintf(&sb, "(declare-const %s!sk%d %s)\n", q.Name, i, q.Quant.Sorts[i])
				}
			}
		}
		// quantified symbols are plain Booleans, declared up front (bodies of other symbols may mention them)
		for _, q := range quants {
			fmt.Fprintf(&sb, "(declare-const %s Bool)\n", q.Name)
		}
	}
	for _, d := range ds {
		switch {
		case d.Quant != nil:
			if !inst {
				kw := "forall"
				if d.Quant.Exists {
					kw = "exists"
				}
				fmt.Fprintf(&sb, "(define-fun %s () Bool (%s (%s) %s))\n", d.Name, kw, d.Quant.binders(), d.Quant.Body.T)
			}
		case d.Def != nil:
			fmt.Fprintf(&sb, "(define-fun %s () %s %s)\n", d.Name, d.Sort, d.Def.T)
		default:
			fmt.Fprintf(&sb, "(declare-const %s %s)\n", d.Name, d.Sort)
		}
	}
	for _, d := range ds {
		for _, a := range d.Assumes {
			fmt.Fprintf(&sb, "(assert %s)\n", a.T)
		}
	}
	for _, a := range instAsserts {
		fmt.Fprintf(&sb, "(assert %s)\n", a)
	}
	for _, a := range asserts {
		fmt.Fprintf(&sb, "(assert %s)\n", a.T)
	}
	sb.WriteString("(check-sat)\n")
	return sb.String(), len(quants) > 0
}

// selectIndexTerms returns the index arguments of all (select A I) applications in an s-expression text.
func selectIndexTerms(text string) []string {
	var out []string
	for i := 0; i+8 <= len(text); i++ {
		if text[i] != '(' || !strings.HasPrefix(text[i:], "(select ") {
			continue
		}
		j := i + len("(select ")
		// first argument
		e1 := sexpEnd(text, j)
		if e1 < 0 || e1 >= len(text) || text[e1] != ' ' {
			continue
		}
		e2 := sexpEnd(text, e1+1)
		if e2 < 0 {
			continue
		}
		out = append(out, text[e1+1:e2])
	}
	return out
}

// selectIndexPairs returns (X, Y) for every nested read (select (select A X) Y) in text.
func selectIndexPairs(text string) [][2]string {
	var out [][2]string
	const pfx = "(select (select "
	for i := 0; i+len(pfx) <= len(text); i++ {
		if text[i] != '(' || !strings.HasPrefix(text[i:], pfx) {
			continue
		}
		in := i + len("(select ")
		j := in + len("(select ")
		e1 := sexpEnd(text, j) // A
		if e1 < 0 || e1 >= len(text) || text[e1] != ' ' {
			continue
		}
		e2 := sexpEnd(text, e1+1) // X
		if e2 < 0 || e2+1 >= len(text) || text[e2] != ')' || text[e2+1] != ' ' {
			continue
		}
		e3 := sexpEnd(text, e2+2) // Y
		if e3 < 0 {
			continue
		}
		out = append(out, [2]string{text[e1+1 : e2], text[e2+2 : e3]})
	}
	return out
}

// sexpEnd returns the index just past the s-expression starting at i.
func sexpEnd(s string, i int) int {
	if i >= len(s) {
		return -1
	}
	if s[i] != '(' {
		j := i
		for j < len(s) && s[j] != ' ' && s[j] != ')' && s[j] != '(' {
			j++
		}
		return j
	}
	depth := 0
	for j := i; j < len(s); j++ {
		switch s[j] {
		case '(':
			depth++
		case ')':
			depth--
			if depth == 0 {
				return j + 1
			}
		}
	}
	return -1
}

// guessSort determines the sort of a ground term text (symbols, bit-vector literals and bvadd/bvsub of those).
func (c *Ctx) guessSort(t string, quants []*Decl) string {
	t = strings.TrimSpace(t)
	if t == "" {
		return ""
	}
	if t[0] != '(' {
		if d, ok := c.decls[t]; ok {
			return d.Sort
		}
		if i := strings.Index(t, "!sk"); i > 0 {
			if d, ok := c.decls[t[:i]]; ok && d.Quant != nil {
				k := 0
				if rest := t[i+3:]; rest != "" {
					fmt.Sscanf(rest, "%d", &k)
				}
				if k < len(d.Quant.Sorts) {
					return d.Quant.Sorts[k]
				}
			}
		}
		if _, err := fmt.Sscanf(t, "%d", new(int)); err == nil {
			return SInt
		}
		return "" // bound variable of an uninstantiated quantifier, or unknown
	}
	var v, w int
	if n, _ := fmt.Sscanf(t, "(_ bv%d %d)", &v, &w); n == 2 {
		return SBV(w)
	}
	for _, op := range []string{"(bvadd ", "(bvsub ", "(bvmul "} {
		if strings.HasPrefix(t, op) {
			e1 := sexpEnd(t, len(op))
			if e1 < 0 {
				return ""
			}
			s1 := c.guessSort(t[len(op):e1], quants)
			if s1 == "" || e1+1 >= len(t) {
				return ""
			}
			e2 := sexpEnd(t, e1+1)
			if e2 < 0 {
				return ""
			}
			s2 := c.guessSort(t[e1+1:e2], quants)
			if s2 != s1 {
				return ""
			}
			return s1
		}
	}
	return ""
}

// HasQuant reports whether a script text uses quantifiers.
func hasQuant(s string) bool {
	return strings.Contains(s, "(forall ") || strings.Contains(s, "(exists ")
}

// addPre adds a raw preamble line once.
func (c *Ctx) addPre(key, line string) {
	if c.PreNames[key] {
		return
	}
	c.PreNames[key] = true
	c.Preamble = append(c.Preamble, line)
}

// uLe: a <= b where a negative a counts as out of range (unsigned comparison in bv mode).
func uLe(a, b Term) Term {
	if gInt {
		return mkAnd(Term{SBool, "(<= 0 " + a.T + ")"}, app(SBool, "bvule", a, b))
	}
	return app(SBool, "bvule", a, b)
}

// idxInRange: 0 <= i < n.
func idxInRange(i, n Term) Term {
	if gInt {
		return mkAnd(Term{SBool, "(<= 0 " + i.T + ")"}, app(SBool, "bvult", i, n))
	}
	return app(SBool, "bvult", i, n)
}
