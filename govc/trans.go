package main

// SSA -> SMT translation: one FT per verified function, one frame per (possibly
// inlined) function body instance. Loops are cut at their headers.

import (
	"fmt"
	"go/ast"
	"go/constant"
	"go/token"
	"go/types"
	"math"
	"math/big"
	"sort"
	"strings"

	"golang.org/x/tools/go/ssa"
)

type ModelVar struct {
	Label string // Go-level description, e.g. "data#len" or "param a"
	Term  Term
	Needs []string // symbols that must be declared in the query for this term to be evaluable
}

type Oblig struct {
	Name   string
	Kind   string
	Func   string
	Text   string
	Pos    string
	Hyp    Term
	Hyp2   Term // cover obligations: the path condition before the assumption (dead code is not a vacuity problem)
	Goal   Term
	Cover  bool // expect sat of Hyp (reachability); Goal unused
	Pre    bool // status decided at generation time (no solver query)
	Inline string
	// results
	Status  string // discharged | failed-sat | failed-unknown | cover-ok | cover-dead
	Backend string
	Time    float64
	Model   map[string]string
	Output  string
	Script  string
	InstScript string
}

type Mem struct {
	gen int
	m   map[string]Term
	ver map[string]int
}

func newMem() *Mem { return &Mem{m: map[string]Term{}, ver: map[string]int{}} }

func (m *Mem) clone() *Mem {
	n := &Mem{gen: m.gen, m: make(map[string]Term, len(m.m)), ver: make(map[string]int, len(m.ver))}
	for k, v := range m.m {
		n.m[k] = v
	}
	for k, v := range m.ver {
		n.ver[k] = v
	}
	return n
}

type bstate struct {
	pc  Term
	mem *Mem
}

type loopInfo struct {
	head    *ssa.BasicBlock
	body    map[*ssa.BasicBlock]bool
	latches []*ssa.BasicBlock
	ordinal int
	mods    map[string]bool // memory components written in the loop
	modAll  bool
}

type retSite struct {
	pc   Term
	mem  *Mem
	vals []*Val
	pos  token.Pos
}

type FT struct {
	e       *Env
	c       *Ctx
	fn      *ssa.Function
	obs     []*Oblig
	nalloc  int
	ngen    int
	memSyms map[string]Term
	partial map[string]bool
	names   map[string]int // obligation name de-dup counters
	kinds   map[string]bool
	fatal   string
	params  []ModelVar
	entryMem *Mem
	auto    map[*ssa.BasicBlock][]*autoInv
	topCon  *Contract
	label   string // obligation name prefix when fn is nil (lemmas)
	inQuant int
	memSymAlloc map[string]int // allocation counter when a memory symbol was created
	failSites []string // fail-stop ghost flags (one per call site that can fail)
	failText  map[string]string
	seenLens []Term // lengths of slices that exist as data (parameters, slices read from memory)
	assignItems []*assignItem
	compSort map[string]string // sort of each memory component seen so far
	boxes   map[string]*Val // dynamic values of non-pointer types boxed in interfaces, by payload term and type
}

type frame struct {
	ft       *FT
	fn       *ssa.Function
	depth    int
	inl      string // inline context label ("" at top)
	vals     map[ssa.Value]*Val
	dbgAddr  map[types.Object]ssa.Value // address-taken locals: variable -> its cell
	exit     map[*ssa.BasicBlock]*bstate
	loops    map[*ssa.BasicBlock]*loopInfo
	inLoop   map[*ssa.BasicBlock][]*loopInfo
	rets     []retSite
	args     []*Val
	oldMem   *Mem
	con      *Contract
	cur      *bstate
	curBlock *ssa.BasicBlock
	dbg      map[types.Object][]ssa.Value
	free     []*Val
	lemPkg   *types.Package
	loopEntryMem map[*loopInfo]*Mem
}

func (ft *FT) note(s string) { ft.partial[s] = true }

func (ft *FT) memSym(gen, ver int, comp, sortS string) Term {
	k := fmt.Sprintf("%d|%d|%s", gen, ver, comp)
	if t, ok := ft.memSyms[k]; ok {
		if t.S != sortS {
			ft.fatal = fmt.Sprintf("memory component %s used at two sorts %s / %s", comp, t.S, sortS)
			return ft.c.Fresh("Mbad", sortS)
		}
		return t
	}
	t := ft.c.Fresh(fmt.Sprintf("M%d.%d$%s", gen, ver, comp), sortS)
	ft.memSyms[k] = t
	if ft.memSymAlloc == nil {
		ft.memSymAlloc = map[string]int{}
	}
	ft.memSymAlloc[t.T] = ft.nalloc
	return t
}

func (ft *FT) memGet(m *Mem, comp, sortS string) Term {
	if ft.compSort == nil {
		ft.compSort = map[string]string{}
	}
	ft.compSort[comp] = sortS
	if t, ok := m.m[comp]; ok {
		if t.S != sortS {
			ft.fatal = fmt.Sprintf("memory component %s used at two sorts %s / %s", comp, t.S, sortS)
			return ft.c.Fresh("Mbad", sortS)
		}
		return t
	}
	return ft.memSym(m.gen, m.ver[comp], comp, sortS)
}

func (ft *FT) havocAll(m *Mem) {
	ft.ngen++
	m.gen = ft.ngen
	keep := map[string]Term{}
	for k, v := range m.m {
		if strings.HasPrefix(k, "$F:") { // ghost fail-stop flags are not program memory
			keep[k] = v
		}
	}
	m.m = keep
	m.ver = map[string]int{}
}

func (ft *FT) havocComp(m *Mem, comp string) {
	delete(m.m, comp)
	ft.ngen++
	m.ver[comp] = ft.ngen
}

func liftSort(s string, n int) string {
	for i := 0; i < n; i++ {
		s = SArr(SIdx, s)
	}
	return s
}

// compFor returns the component name and sort for leaf l of the value at lv.
func compFor(lv *LV, l Leaf) (string, string) {
	name := lv.Root + lv.fieldPath() + l.Path
	return name, SArr(SInt, liftSort(l.Sort, len(lv.idxs())))
}

func (ft *FT) load(m *Mem, lv *LV) *Val {
	v := &Val{T: lv.T}
	idxs := lv.idxs()
	for _, l := range leavesOf(lv.T) {
		name, s := compFor(lv, l)
		arr := ft.memGet(m, name, s)
		// facts about values read under a binder cannot be attached to a named ground term: state them once as
		// quantified axioms over the (unwritten) memory symbol. Only done for symbols actually read under a binder.
		if ft.inQuant > 0 {
			if l.Kind == 'r' {
				ft.refAxiom(arr, len(idxs)+l.Lift)
			}
			if gInt && (l.Kind == 'i' || l.Kind == 'u') {
				ft.intAxiom(arr, len(idxs)+l.Lift, l.W, l.Kind == 'i')
			}
		}
		t := selectNested(mkSelect(arr, lv.Ref), idxs)
		if l.Lift == 0 && l.Kind == 'r' && ft.inQuant == 0 {
			// a reference read from memory cannot designate an object that this function allocates later
			bound := allocBase + int64(ft.nalloc)
			t = ft.rangedDefKey(fmt.Sprintf("ref%d|", bound), "ldref", t, func(x Term) Term {
				return mkAnd(app(SBool, ">=", x, intConst(0)), app(SBool, "<=", x, intConst(bound)))
			})
		}
		if gInt && l.Lift == 0 {
			switch l.Kind {
			case 'i', 'u':
				t = ft.rangedDef("ld", t, inTypeRange2(l))
			case 'l', 'c', 'o':
				t = ft.rangedDef("ld", t, func(x Term) Term {
					return mkAnd(Term{SBool, "(<= 0 " + x.T + ")"}, Term{SBool, fmt.Sprintf("(<= %s %d)", x.T, maxLen)})
				})
			}
		}
		v.L = append(v.L, t)
	}
	// slices read from memory: len <= cap (Go type invariant)
	ls := leavesOf(lv.T)
	if ft.inQuant == 0 {
		for i, l := range ls {
			if l.Kind == 'l' && l.Lift == 0 && i+1 < len(ls) && ls[i+1].Kind == 'c' {
				cp := v.L[i+1]
				v.L[i] = ft.rangedDef("ldlen", v.L[i], func(x Term) Term { return mkAnd(uLe(x, cp), uLe(cp, idxInt(maxLen))) })
				// a nil slice has length 0 (Go invariant of every slice value, also of those stored in memory)
				if i >= 2 && ls[i-2].Kind == 'r' && strings.HasSuffix(ls[i-2].Path, "#ref") {
					if _, named := ft.c.decls[v.L[i].T]; named {
						ft.c.Assume(v.L[i], mkImp(mkEq(v.L[i-2], intConst(0)), mkEq(v.L[i], idxInt(0))))
					}
				}
				ft.noteLen(v.L[i])
			}
		}
	}
	return v
}

// refAxiom: every reference stored in an (unwritten) memory symbol designates an object that existed when the
// symbol was created — it cannot equal a later allocation of this function. depth = number of index levels below the reference key.
func (ft *FT) refAxiom(arr Term, depth int) {
	d := ft.c.decls[arr.T]
	if d == nil || d.Def != nil || d.Quant != nil {
		return
	}
	key := "refax|" + arr.T
	if _, done := ft.memSyms[key]; done {
		return
	}
	ft.memSyms[key] = arr
	bound := allocBase + int64(ft.memSymAlloc[arr.T])
	vars := []string{ft.c.BoundVar("r")}
	sorts := []string{SInt}
	sel := mkSelect(arr, Term{SInt, vars[0]})
	for i := 0; i < depth; i++ {
		v := ft.c.BoundVar("i")
		vars = append(vars, v)
		sorts = append(sorts, SIdx)
		sel = mkSelect(sel, Term{SIdx, v})
	}
	if sel.S != SInt {
		return
	}
	ft.c.Assume(arr, ft.c.markRange(ft.c.QuantN(false, vars, sorts, mkAnd(app(SBool, ">=", sel, intConst(0)), app(SBool, "<=", sel, intConst(bound))))))
}

// intAxiom (int mode): every integer stored in an unwritten memory symbol lies in its type's range.
func (ft *FT) intAxiom(arr Term, depth int, w int, signed bool) {
	d := ft.c.decls[arr.T]
	if d == nil || d.Def != nil || d.Quant != nil {
		return
	}
	key := "intax|" + arr.T
	if _, done := ft.memSyms[key]; done {
		return
	}
	ft.memSyms[key] = arr
	vars := []string{ft.c.BoundVar("r")}
	sorts := []string{SInt}
	sel := mkSelect(arr, Term{SInt, vars[0]})
	for i := 0; i < depth; i++ {
		v := ft.c.BoundVar("i")
		vars = append(vars, v)
		sorts = append(sorts, SIdx)
		if !isArr(sel.S) {
			return
		}
		sel = mkSelect(sel, Term{SIdx, v})
	}
	if sel.S != SInt {
		return
	}
	ft.c.Assume(arr, ft.c.markRange(ft.c.QuantN(false, vars, sorts, inTypeRange(sel, w, signed))))
}

func (ft *FT) noteLen(t Term) {
	if len(ft.seenLens) >= 12 {
		return
	}
	for _, x := range ft.seenLens {
		if x.T == t.T {
			return
		}
	}
	ft.seenLens = append(ft.seenLens, t)
}

func inTypeRange2(l Leaf) func(Term) Term {
	return func(x Term) Term { return inTypeRange(x, l.W, l.Kind == 'i') }
}

// rangedDef names a term and attaches a range fact to the name (int mode: values read from memory
// lie in their type's range).
func (ft *FT) rangedDef(hint string, t Term, rng func(Term) Term) Term {
	return ft.rangedDefKey("", hint, t, rng)
}

func (ft *FT) rangedDefKey(kp, hint string, t Term, rng func(Term) Term) Term {
	if _, ok := intLitVal(t); ok {
		return t
	}
	if ft.inQuant > 0 {
		return t // the term mentions a bound variable: no global definition possible
	}
	key := "rd|" + kp + t.T
	if n, ok := ft.memSyms[key]; ok {
		return n
	}
	n := ft.c.Fresh(hint, t.S)
	ft.c.Assume(n, mkEq(n, t))
	ft.c.Assume(n, rng(n))
	ft.memSyms[key] = n
	return n
}

func (ft *FT) store(m *Mem, lv *LV, v *Val) {
	idxs := lv.idxs()
	ls := leavesOf(lv.T)
	if len(ls) != len(v.L) {
		ft.fatal = fmt.Sprintf("store: leaf count mismatch for %s: %d vs %d (%s)", lv.T, len(ls), len(v.L), v.T)
		return
	}
	for i, l := range ls {
		name, s := compFor(lv, l)
		arr := ft.memGet(m, name, s)
		if v.L[i].S != l.Sort {
			ft.fatal = fmt.Sprintf("store: sort mismatch at %s: %s vs %s", name, v.L[i].S, l.Sort)
			return
		}
		nv := mkStore(arr, lv.Ref, updateNested(mkSelect(arr, lv.Ref), idxs, v.L[i]))
		m.m[name] = ft.c.Define("m$"+name, nv)
	}
}

// compsOf lists the component names written by a store of type T at lv.
func compsOf(lv *LV) []string {
	var out []string
	for _, l := range leavesOf(lv.T) {
		n, _ := compFor(lv, l)
		out = append(out, n)
	}
	return out
}

func (ft *FT) freshVal(hint string, t types.Type) *Val {
	v := &Val{T: t}
	for _, l := range leavesOf(t) {
		v.L = append(v.L, ft.c.Fresh(hint+l.Path, l.Sort))
	}
	ft.assumeTypeInv(v)
	return v
}

// freshInput: a fresh value for a parameter / lemma variable / call result. A slice or string that is the
// value itself (not nested in a struct) gets offset 0: its backing array is re-indexed so that the view
// starts at 0. This is without loss of generality except for partially overlapping slice arguments,
// which are assumed away (listed in the evidence).
func (ft *FT) freshInput(hint string, t types.Type) *Val {
	v := ft.freshVal(hint, t)
	if isSlice(t) || isString(t) {
		v.L[1] = idxInt(0)
		ft.e.trust("slice/string arguments and call results are views starting at index 0 of their backing array (no partially overlapping slice arguments)")
	}
	return v
}

// unbox returns the value of dynamic type t carried by an interface with the given payload. Boxes are
// immutable, so the same payload term and type always give the same value (a fresh input value the first
// time: a slice or string in a box is a view starting at index 0, like a parameter).
func (ft *FT) unbox(payload Term, t types.Type, hint string) *Val {
	if ft.boxes == nil {
		ft.boxes = map[string]*Val{}
	}
	k := payload.T + "|" + typeKey(t)
	if v, ok := ft.boxes[k]; ok {
		return v
	}
	v := ft.freshInput(hint, t)
	if isSlice(t) {
		ft.seenLens = append(ft.seenLens, v.L[2])
	}
	ft.boxes[k] = v
	return v
}

func (ft *FT) assumeTypeInv(v *Val) {
	if len(v.L) == 0 {
		return
	}
	ls := leavesOf(v.T)
	for i, l := range ls {
		if l.Lift > 0 {
			continue
		}
		sym := v.L[i]
		if _, ok := ft.c.decls[sym.T]; !ok {
			continue
		}
		switch l.Kind {
		case 'i', 'u':
			if gInt {
				ft.c.Assume(sym, inTypeRange(sym, l.W, l.Kind == 'i'))
			}
		case 'l':
			ft.c.Assume(sym, uLe(sym, idxInt(maxLen)))
			if i+1 < len(ls) && ls[i+1].Kind == 'c' {
				ft.c.Assume(sym, app(SBool, "bvule", sym, v.L[i+1]))
			}
		case 'c', 'o':
			ft.c.Assume(sym, uLe(sym, idxInt(maxLen)))
		case 'r':
			ft.c.Assume(sym, app(SBool, ">=", sym, intConst(0)))
			ft.c.Assume(sym, app(SBool, "<", sym, intConst(allocBase)))
			if strings.HasSuffix(l.Path, "#ref") && i+3 < len(ls) && ls[i+3].Kind == 'c' {
				ft.c.Assume(sym, mkImp(mkEq(sym, intConst(0)), mkAnd(mkEq(v.L[i+2], idxInt(0)), mkEq(v.L[i+3], idxInt(0)))))
			}
		case 't':
			ft.c.Assume(sym, app(SBool, ">=", sym, intConst(0)))
		}
	}
}

const allocBase = int64(1) << 40

func (ft *FT) newRef() Term {
	ft.nalloc++
	return intConst(allocBase + int64(ft.nalloc))
}

func zeroVal(t types.Type) *Val {
	v := &Val{T: t}
	for _, l := range leavesOf(t) {
		v.L = append(v.L, zeroOf(l.Sort))
	}
	return v
}

func (ft *FT) iteVal(c Term, a, b *Val) *Val {
	if len(a.L) != len(b.L) {
		ft.fatal = fmt.Sprintf("iteVal: shape mismatch %s vs %s", a.T, b.T)
		return a
	}
	out := &Val{T: a.T}
	for i := range a.L {
		out.L = append(out.L, mkIte(c, a.L[i], b.L[i]))
	}
	// static info survives only if identical
	if a.LV != nil && b.LV != nil && sameLV(a.LV, b.LV) {
		out.LV = a.LV
	} else if a.LV != nil || b.LV != nil {
		if (a.LV != nil && len(a.LV.Steps) > 0) || (b.LV != nil && len(b.LV.Steps) > 0) {
			ft.note("interior pointer merged at phi")
		}
	}
	if a.Rg != nil && b.Rg != nil && sameLV(a.Rg, b.Rg) {
		out.Rg = a.Rg
	} else if a.Rg != nil || b.Rg != nil {
		// one side may be a nil/zero slice: keep the non-nil region
		switch {
		case a.Rg == nil && isZeroSliceVal(a):
			out.Rg = b.Rg
		case b.Rg == nil && isZeroSliceVal(b):
			out.Rg = a.Rg
		default:
			ft.note("slices with different backing regions merged at phi")
		}
	}
	return out
}

func isZeroSliceVal(v *Val) bool { return len(v.L) == 4 && v.L[0].T == "0" }

func sameLV(a, b *LV) bool {
	if a.Root != b.Root || a.Ref.T != b.Ref.T || len(a.Steps) != len(b.Steps) {
		return false
	}
	for i := range a.Steps {
		if a.Steps[i].Field != b.Steps[i].Field {
			return false
		}
		if (a.Steps[i].Idx == nil) != (b.Steps[i].Idx == nil) {
			return false
		}
		if a.Steps[i].Idx != nil && a.Steps[i].Idx.T != b.Steps[i].Idx.T {
			return false
		}
	}
	return true
}

// nameVal gives every non-trivial leaf a name (keeps terms small).
func (ft *FT) nameVal(hint string, v *Val) *Val {
	ls := leavesOf(v.T)
	if len(ls) != len(v.L) {
		return v
	}
	out := *v
	out.L = make([]Term, len(v.L))
	for i := range v.L {
		out.L[i] = ft.c.Define(hint+ls[i].Path, v.L[i])
	}
	return &out
}

// ---------------------------------------------------------------------------
// obligations

func (fr *frame) oblige(kind, text string, pos token.Pos, goal Term) {
	ft := fr.ft
	if goal.T == "true" {
		return
	}
	if !ft.kinds[kind] && !ft.kinds["*"] {
		// still assume it afterwards (path continues only if no panic)
		fr.cur.pc = ft.c.Define("pc", mkAnd(fr.cur.pc, goal))
		return
	}
	base := fmt.Sprintf("%s#%s#%s", ft.fname(), kind, text)
	if fr.inl != "" {
		base = fmt.Sprintf("%s#%s@%s#%s", ft.fname(), kind, fr.inl, text)
	}
	k := ft.names[base]
	ft.names[base] = k + 1
	ob := &Oblig{Name: fmt.Sprintf("%s#%d", base, k), Kind: kind, Func: ft.fname(), Text: text,
		Pos: ft.e.pos(pos), Hyp: fr.cur.pc, Goal: goal, Inline: fr.inl}
	ft.obs = append(ft.obs, ob)
	fr.cur.pc = ft.c.Define("pc", mkAnd(fr.cur.pc, goal))
}

// obligeAlways: like oblige but never skipped by the kind filter (soundness-critical checks).
func (fr *frame) obligeAlways(kind, text string, pos token.Pos, goal Term) {
	ft := fr.ft
	had := ft.kinds[kind]
	ft.kinds[kind] = true
	fr.oblige(kind, text, pos, goal)
	if !had {
		delete(ft.kinds, kind)
	}
}

func (fr *frame) assume(t Term) {
	fr.cur.pc = fr.ft.c.Define("pc", mkAnd(fr.cur.pc, t))
}

// ---------------------------------------------------------------------------
// frame setup

func (ft *FT) fname() string {
	if ft.fn == nil {
		return ft.label
	}
	return funcName(ft.fn)
}

func funcName(fn *ssa.Function) string {
	if fn == nil {
		return "?"
	}
	pkg := ""
	if fn.Pkg != nil {
		pkg = fn.Pkg.Pkg.Name()
	} else if fn.Object() != nil && fn.Object().Pkg() != nil {
		pkg = fn.Object().Pkg().Name()
	}
	if recv := fn.Signature.Recv(); recv != nil {
		rt := recv.Type()
		ptr := ""
		if p, ok := rt.(*types.Pointer); ok {
			rt = p.Elem()
			ptr = "*"
		}
		name := rt.String()
		if n, ok := rt.(*types.Named); ok {
			name = n.Obj().Name()
			if n.Obj().Pkg() != nil {
				pkg = n.Obj().Pkg().Name()
			}
		}
		return fmt.Sprintf("%s.(%s%s).%s", pkg, ptr, name, fn.Name())
	}
	if fn.Parent() != nil {
		return funcName(fn.Parent()) + "$" + fn.Name()
	}
	return pkg + "." + fn.Name()
}

func (fr *frame) findLoops() {
	fn := fr.fn
	fr.loops = map[*ssa.BasicBlock]*loopInfo{}
	fr.inLoop = map[*ssa.BasicBlock][]*loopInfo{}
	for _, b := range fn.Blocks {
		for _, s := range b.Succs {
			if s.Dominates(b) { // back edge b -> s
				li := fr.loops[s]
				if li == nil {
					li = &loopInfo{head: s, body: map[*ssa.BasicBlock]bool{s: true}, mods: map[string]bool{}}
					fr.loops[s] = li
				}
				li.latches = append(li.latches, b)
				// natural loop: all blocks that reach b without passing s
				stack := []*ssa.BasicBlock{b}
				for len(stack) > 0 {
					x := stack[len(stack)-1]
					stack = stack[:len(stack)-1]
					if li.body[x] {
						continue
					}
					li.body[x] = true
					stack = append(stack, x.Preds...)
				}
			}
		}
	}
	var heads []*ssa.BasicBlock
	for h := range fr.loops {
		heads = append(heads, h)
	}
	sort.Slice(heads, func(i, j int) bool {
		pi, pj := loopPos(heads[i]), loopPos(heads[j])
		if pi != pj {
			return pi < pj
		}
		return heads[i].Index < heads[j].Index
	})
	for i, h := range heads {
		fr.loops[h].ordinal = i
		for b := range fr.loops[h].body {
			fr.inLoop[b] = append(fr.inLoop[b], fr.loops[h])
		}
	}
}

// loopPos: a source position representative of the loop (for ordinal ordering):
// the minimum instruction position inside the loop body.
func loopPos(h *ssa.BasicBlock) token.Pos {
	best := token.Pos(0)
	var visit func(b *ssa.BasicBlock)
	seen := map[*ssa.BasicBlock]bool{}
	// use header + its instructions; fall back to successors
	visit = func(b *ssa.BasicBlock) {
		if seen[b] {
			return
		}
		seen[b] = true
		for _, in := range b.Instrs {
			if _, isPhi := in.(*ssa.Phi); isPhi {
				continue // a phi carries the position of its variable's declaration, shared by sibling loops
			}
			if p := in.Pos(); p.IsValid() && (best == 0 || p < best) {
				best = p
			}
			if d, ok := in.(*ssa.DebugRef); ok {
				if p := d.Expr.Pos(); p.IsValid() && (best == 0 || p < best) {
					best = p
				}
			}
		}
	}
	visit(h)
	if best == 0 {
		for _, s := range h.Succs {
			visit(s)
		}
	}
	if best == 0 {
		return token.Pos(1<<30 + h.Index)
	}
	return best
}

func isBackEdge(from, to *ssa.BasicBlock) bool { return to.Dominates(from) }

func (fr *frame) rpo() []*ssa.BasicBlock {
	var order []*ssa.BasicBlock
	seen := map[*ssa.BasicBlock]bool{}
	var dfs func(b *ssa.BasicBlock)
	dfs = func(b *ssa.BasicBlock) {
		seen[b] = true
		for _, s := range b.Succs {
			if !seen[s] && !isBackEdge(b, s) {
				dfs(s)
			}
		}
		order = append(order, b)
	}
	dfs(fr.fn.Blocks[0])
	for i, j := 0, len(order)-1; i < j; i, j = i+1, j-1 {
		order[i], order[j] = order[j], order[i]
	}
	return order
}

// edgeCond: condition under which control leaves block p (whose exit state is st) towards s.
func (fr *frame) edgeCond(p *ssa.BasicBlock, s *ssa.BasicBlock, st *bstate) Term {
	last := p.Instrs[len(p.Instrs)-1]
	switch t := last.(type) {
	case *ssa.If:
		c := fr.val(t.Cond).L[0]
		if p.Succs[0] == s && p.Succs[1] == s {
			return st.pc
		}
		if p.Succs[0] == s {
			return mkAnd(st.pc, c)
		}
		return mkAnd(st.pc, mkNot(c))
	case *ssa.Jump:
		return st.pc
	}
	return tFalse
}

// ---------------------------------------------------------------------------
// operand values

func (fr *frame) val(v ssa.Value) *Val {
	if x, ok := fr.vals[v]; ok {
		return x
	}
	ft := fr.ft
	switch c := v.(type) {
	case *ssa.Const:
		x := ft.constVal(c)
		return x
	case *ssa.Global:
		pt := c.Type().Underlying().(*types.Pointer).Elem()
		name := "G:" + c.Pkg.Pkg.Name() + "." + c.Name()
		x := &Val{T: c.Type(), L: []Term{intConst(1)}, LV: &LV{Root: name, Ref: intConst(1), T: pt}}
		fr.vals[v] = x
		return x
	case *ssa.Function:
		x := &Val{T: c.Type(), L: []Term{intConst(int64(ft.e.typeID("func:" + funcName(c))))}, FnName: funcName(c)}
		fr.vals[v] = x
		return x
	case *ssa.Builtin:
		return &Val{T: c.Type(), L: []Term{intConst(0)}, FnName: "builtin:" + c.Name()}
	case *ssa.FreeVar:
		for i, fv := range fr.fn.FreeVars {
			if fv == c && i < len(fr.free) && fr.free[i] != nil {
				return fr.free[i]
			}
		}
		x := ft.freshVal("free$"+c.Name(), c.Type())
		fr.vals[v] = x
		return x
	}
	// value not yet defined (e.g. from unreachable block): havoc
	x := ft.freshVal("undef$"+v.Name(), v.Type())
	fr.vals[v] = x
	return x
}

func fpLit(w int, f float64) Term {
	if w == 32 {
		b := math.Float32bits(float32(f))
		return Term{SF32, fmt.Sprintf("(fp #b%01b #b%08b #b%023b)", b>>31, (b>>23)&0xff, b&0x7fffff)}
	}
	b := math.Float64bits(f)
	return Term{SF64, fmt.Sprintf("(fp #b%01b #b%011b #b%052b)", b>>63, (b>>52)&0x7ff, b&0xfffffffffffff)}
}

func (ft *FT) strLit(s string) *Val {
	arr := zeroOf(SArr(SIdx, SBV(8)))
	if len(s) <= 256 {
		for i := 0; i < len(s); i++ {
			if s[i] != 0 {
				arr = mkStore(arr, idxInt(int64(i)), bvInt(8, int64(s[i])))
			}
		}
		arr = ft.c.Define("strlit", arr)
	} else {
		arr = ft.c.Fresh("strlit$long", SArr(SIdx, SBV(8)))
	}
	lit := s
	return &Val{T: types.Typ[types.String], L: []Term{arr, idxInt(0), idxInt(int64(len(s)))}, Lit: &lit}
}

func (ft *FT) constVal(c *ssa.Const) *Val {
	t := c.Type()
	if c.Value == nil {
		return zeroVal(t)
	}
	if w, _, ok := isIntType(t); ok {
		bi, _ := new(big.Int).SetString(c.Value.ExactString(), 10)
		if bi == nil {
			// e.g. rune/float constant convertible to int
			if i64, exact := constant.Int64Val(constant.ToInt(c.Value)); exact {
				bi = big.NewInt(i64)
			} else {
				bi = big.NewInt(0)
			}
		}
		return &Val{T: t, L: []Term{bvConst(w, bi)}}
	}
	if w, ok := isFloatType(t); ok {
		f, _ := constant.Float64Val(c.Value)
		return &Val{T: t, L: []Term{fpLit(w, f)}}
	}
	if isBoolType(t) {
		return &Val{T: t, L: []Term{mkBool(constant.BoolVal(c.Value))}}
	}
	if isString(t) {
		v := ft.strLit(constant.StringVal(c.Value))
		v.T = t
		return v
	}
	return ft.freshVal("const", t)
}

// ---------------------------------------------------------------------------

func (e *Env) pos(p token.Pos) string {
	if !p.IsValid() {
		return ""
	}
	ps := e.fset.Position(p)
	f := ps.Filename
	if strings.HasPrefix(f, e.repo+"/") {
		f = f[len(e.repo)+1:]
	}
	return fmt.Sprintf("%s:%d", f, ps.Line)
}

// srcText returns the normalised source text of the smallest expression of the
// wanted kind at pos.
func (e *Env) srcText(pos token.Pos, kind string) string {
	if !pos.IsValid() {
		return "?"
	}
	if n := e.exprAt[kindPos{kind, pos}]; n != nil {
		return e.nodeText(n)
	}
	return "?"
}

func (e *Env) nodeText(n ast.Node) string {
	ps, pe := e.fset.Position(n.Pos()), e.fset.Position(n.End())
	src := e.source(ps.Filename)
	if src == nil || pe.Offset > len(src) {
		return "?"
	}
	s := string(src[ps.Offset:pe.Offset])
	s = strings.Join(strings.Fields(s), " ")
	if len(s) > 90 {
		s = s[:90] + "…"
	}
	return s
}
