package main

import (
	"bytes"
	"context"
	"fmt"
	"os"
	"os/exec"
	"regexp"
	"strconv"
	"strings"
	"sync"
	"time"
)

type solverSpec struct {
	name string
	argv func(timeoutS int) []string
	pre  string
}

var solvers = []solverSpec{
	{"z3-new", func(t int) []string { return []string{"z3-new", "-smt2", "-in", fmt.Sprintf("-T:%d", t)} }, ""},
	{"cvc5", func(t int) []string {
		return []string{"cvc5", "--lang=smt2", fmt.Sprintf("--tlimit=%d", t*1000), "--produce-models", "--fp-exp"}
	}, "(set-logic ALL)\n"},
	{"z3", func(t int) []string { return []string{"z3", "-smt2", "-in", fmt.Sprintf("-T:%d", t)} }, ""},
}

type solveOut struct {
	status  string // unsat sat unknown error
	out     string
	backend string
	secs    float64
}

func runSolver(sp solverSpec, script string, timeoutS int) solveOut {
	return runSolverCtx(context.Background(), sp, script, timeoutS)
}

func runSolverCtx(parent context.Context, sp solverSpec, script string, timeoutS int) solveOut {
	ctx, cancel := context.WithTimeout(parent, time.Duration(timeoutS+2)*time.Second)
	defer cancel()
	argv := sp.argv(timeoutS)
	cmd := exec.CommandContext(ctx, argv[0], argv[1:]...)
	cmd.Stdin = strings.NewReader(sp.pre + script)
	var buf bytes.Buffer
	cmd.Stdout = &buf
	cmd.Stderr = &buf
	t0 := time.Now()
	cmd.Run()
	out := buf.String()
	first := strings.TrimSpace(strings.SplitN(out, "\n", 2)[0])
	st := "unknown"
	switch first {
	case "unsat":
		st = "unsat"
	case "sat":
		st = "sat"
	case "unknown", "timeout":
		st = "unknown"
	default:
		if strings.Contains(first, "error") || strings.Contains(out, "(error") {
			st = "error"
		}
	}
	return solveOut{status: st, out: out, backend: sp.name, secs: time.Since(t0).Seconds()}
}

// solveScript runs a portfolio: a fast first attempt, then a race.
func solveScript(script string, quickS, fullS int) solveOut {
	r := runSolver(solvers[0], script, quickS)
	if r.status == "unsat" || r.status == "sat" {
		return r
	}
	total := r.secs
	// race all back ends at the full timeout
	ch := make(chan solveOut, len(solvers))
	rctx, rcancel := context.WithCancel(context.Background())
	defer rcancel()
	for _, sp := range solvers {
		sp := sp
		go func() { ch <- runSolverCtx(rctx, sp, script, fullS) }()
	}
	var best solveOut
	best = r
	var errOut string
	for range solvers {
		o := <-ch
		if o.status == "unsat" || o.status == "sat" {
			best = o
			rcancel() // first definitive answer wins; stop the others
			break
		} else if o.status == "error" {
			errOut += o.backend + ": " + firstLines(o.out, 3) + "\n"
		}
	}
	best.secs += total
	if best.status != "unsat" && best.status != "sat" {
		best.out += errOut
	}
	return best
}

func firstLines(s string, n int) string {
	ls := strings.Split(s, "\n")
	if len(ls) > n {
		ls = ls[:n]
	}
	return strings.Join(ls, "\n")
}

var reGetValue = regexp.MustCompile(`\(\s*([^\s()]+)\s+((?:\(_ bv\d+ \d+\))|(?:#x[0-9a-fA-F]+)|(?:#b[01]+)|(?:\(- \d+\))|(?:\d+)|true|false|\(fp [^)]*\)|\(_ [^)]*\))\s*\)`)

// parseModelValues parses a (get-value ...) answer positionally: the i-th answered pair belongs to asked[i].
func parseModelValues(out string, asked []ModelVar) map[string]string {
	m := map[string]string{}
	i := strings.Index(out, "((")
	if i < 0 {
		return m
	}
	s := out[i+1:]
	// split top-level pairs
	depth, start, k := 0, -1, 0
	for j := 0; j < len(s) && k < len(asked); j++ {
		switch s[j] {
		case '(':
			if depth == 0 {
				start = j
			}
			depth++
		case ')':
			depth--
			if depth == 0 && start >= 0 {
				pair := s[start+1 : j]
				// value = last balanced s-expression or atom of the pair
				val := lastSexp(pair)
				m[asked[k].Label] = val
				k++
				start = -1
			}
			if depth < 0 {
				return m
			}
		}
	}
	return m
}

func lastSexp(s string) string {
	s = strings.TrimSpace(s)
	if strings.HasSuffix(s, ")") {
		depth := 0
		for j := len(s) - 1; j >= 0; j-- {
			switch s[j] {
			case ')':
				depth++
			case '(':
				depth--
				if depth == 0 {
					return s[j:]
				}
			}
		}
		return s
	}
	if j := strings.LastIndexAny(s, " \t\n"); j >= 0 {
		return s[j+1:]
	}
	return s
}

func parseModel(out string) map[string]string {
	m := map[string]string{}
	for _, mm := range reGetValue.FindAllStringSubmatch(out, -1) {
		m[mm[1]] = mm[2]
	}
	return m
}

type solveCfg struct {
	quickS, fullS int
	workers       int
}

func solveAll(results []*FuncResult, cfg solveCfg) {
	type job struct {
		r  *FuncResult
		ob *Oblig
	}
	var jobs []job
	for _, r := range results {
		for _, ob := range r.Obs {
			jobs = append(jobs, job{r, ob})
		}
	}
	ch := make(chan job)
	var wg sync.WaitGroup
	if v, err := strconv.Atoi(os.Getenv("GOVC_WORKERS")); err == nil && v > 0 && v < cfg.workers {
		cfg.workers = v // development aid: several sweeps sharing one machine
	}
	for w := 0; w < cfg.workers; w++ {
		wg.Add(1)
		go func() {
			defer wg.Done()
			for j := range ch {
				solveOne(j.r, j.ob, cfg)
			}
		}()
	}
	for _, j := range jobs {
		ch <- j
	}
	close(ch)
	wg.Wait()
}

// solveObs solves a subset of one function's obligations.
func solveObs(r *FuncResult, obs []*Oblig, cfg solveCfg, quiet bool) {
	ch := make(chan *Oblig)
	var wg sync.WaitGroup
	for w := 0; w < cfg.workers; w++ {
		wg.Add(1)
		go func() {
			defer wg.Done()
			for ob := range ch {
				solveOne(r, ob, cfg)
			}
		}()
	}
	for _, ob := range obs {
		ch <- ob
	}
	close(ch)
	wg.Wait()
}

func solveOne(r *FuncResult, ob *Oblig, cfg solveCfg) {
	if ob.Pre {
		return
	}
	var asserts []Term
	if ob.Cover {
		asserts = []Term{ob.Hyp}
	} else {
		asserts = []Term{ob.Hyp, mkNot(ob.Goal)}
	}
	var asked []ModelVar
	addModel := func(script string) string {
		asked = nil
		var terms []string
		for _, p := range r.Params {
			ok := true
			for _, n := range p.Needs {
				if n == "" || strings.HasPrefix(n, "(") || (n[0] >= '0' && n[0] <= '9') {
					continue // a literal (e.g. the normalised slice offset 0) needs no declaration
				}
				if !strings.Contains(script, "(declare-const "+n+" ") && !strings.Contains(script, "(define-fun "+n+" ") {
					ok = false
					break
				}
			}
			if ok && !isArr(p.Term.S) {
				asked = append(asked, p)
				terms = append(terms, p.Term.T)
			}
		}
		if len(terms) > 0 {
			script += "(get-value (" + strings.Join(terms, " ") + "))\n"
		}
		return script
	}
	script, hasQ := r.Ctx.Script("", asserts, false)
	script = addModel(script)
	ob.Script = script
	var o solveOut
	if hasQ {
		// first: sound quantifier-free weakening (instantiation + skolemisation)
		iscript, _ := r.Ctx.Script("", asserts, true)
		iscript = addModel(iscript)
		ob.InstScript = iscript
		io := solveScript(iscript, cfg.quickS, cfg.fullS)
		if io.status == "unsat" {
			io.backend += "/inst"
			o = io
			ob.Script = iscript
		} else {
			o = solveScript(script, cfg.quickS, cfg.fullS)
			if o.status != "unsat" && io.status == "sat" && !ob.Cover {
				// keep the candidate model of the weakened query (may be spurious; replay decides)
				o.status = "sat"
				o.out = io.out
				o.backend = io.backend + "/inst-candidate"
			}
			o.secs += io.secs
		}
	} else {
		o = solveScript(script, cfg.quickS, cfg.fullS)
	}
	ob.Backend = o.backend
	ob.Time = o.secs
	ob.Output = o.out
	if ob.Cover {
		switch o.status {
		case "sat":
			ob.Status = "cover-ok"
		case "unsat":
			ob.Status = "cover-dead"
			if ob.Hyp2.T != "" {
				// infeasible after the assumption: a problem only if the path was feasible before it
				s2, _ := r.Ctx.Script("", []Term{ob.Hyp2}, false)
				o2 := solveScript(s2, cfg.quickS, cfg.fullS)
				if o2.status == "unsat" {
					ob.Status = "cover-ok" // dead code
				} else if o2.status != "sat" {
					ob.Status = "cover-unknown"
				}
			}
		default:
			ob.Status = "cover-unknown"
		}
		return
	}
	switch o.status {
	case "unsat":
		ob.Status = "discharged"
	case "sat":
		ob.Status = "failed-sat"
		ob.Model = parseModelValues(o.out, asked)
	default:
		ob.Status = "failed-unknown"
	}
}
