package writer

import (
	"testing"

	"github.com/scigolib/hdf5/internal/core"
)

// Property C11 (filter pipeline message round trip): the message produced by (*FilterPipeline).EncodePipelineMessage,
// parsed by core.ParseFilterPipelineMessage (the parser the library's own dataset readers use), must describe the same
// filters. Lemma obligation: writer.pipelineRoundTrip1 / writer.pipelineRoundTrip2.
func TestC11PipelineRoundTrip(t *testing.T) {
	fp := NewFilterPipeline()
	fp.AddFilter(NewShuffleFilter(4))
	fp.AddFilter(NewGZIPFilter(6))
	msg, err := fp.EncodePipelineMessage()
	if err != nil {
		t.Fatal(err)
	}
	back, err := core.ParseFilterPipelineMessage(msg)
	if err != nil {
		t.Fatalf("parse of encoded pipeline message % x failed: %v", msg, err)
	}
	if int(back.NumFilters) != 2 || len(back.Filters) != 2 {
		t.Fatalf("filter count: got NumFilters=%d len=%d, want 2", back.NumFilters, len(back.Filters))
	}
	want := []struct {
		id core.FilterID
		cd []uint32
	}{{core.FilterShuffle, []uint32{4}}, {core.FilterDeflate, []uint32{6}}}
	for i, w := range want {
		got := back.Filters[i]
		if got.ID != w.id {
			t.Errorf("filter %d: ID = %d, want %d (message % x)", i, got.ID, w.id, msg)
		}
		if len(got.ClientData) != len(w.cd) || (len(got.ClientData) > 0 && got.ClientData[0] != w.cd[0]) {
			t.Errorf("filter %d: ClientData = %v, want %v", i, got.ClientData, w.cd)
		}
	}
}
