package hdf5

import (
	"path/filepath"
	"testing"
)

func newResizable(t *testing.T) (*FileWriter, *DatasetWriter) {
	t.Helper()
	fw, err := CreateForWrite(filepath.Join(t.TempDir(), "r.h5"), CreateTruncate)
	if err != nil {
		t.Fatal(err)
	}
	ds, err := fw.CreateDataset("/data", Float64, []uint64{10}, WithChunkDims([]uint64{5}), WithMaxDims([]uint64{Unlimited}))
	if err != nil {
		t.Fatal(err)
	}
	return fw, ds
}

// KNOWN FINDING (C13): dataSize = totalElements * elementSize is computed without an overflow check.
func TestReplayResizeDataSizeWrap(t *testing.T) {
	fw, ds := newResizable(t)
	defer fw.Close()
	if err := ds.Resize([]uint64{1 << 61}); err != nil {
		t.Fatalf("rejected: %v", err)
	}
	if ds.dataSize != 0 {
		t.Fatalf("dataSize = %d", ds.dataSize)
	}
	t.Log("REPRODUCED: Resize([2^61]) of a float64 dataset succeeds with dataSize == 0")
}

// FIXED (C13): Resize([0]) used to rewrite the stored header and set dims=[0] before failing in NewChunkCoordinator.
func TestReplayResizeZeroAtomicFixed(t *testing.T) {
	fw, ds := newResizable(t)
	defer fw.Close()
	err := ds.Resize([]uint64{0})
	if err == nil {
		t.Skip("zero-size resize accepted")
	}
	if len(ds.dims) != 1 || ds.dims[0] != 10 {
		t.Fatalf("refused Resize changed dims to %v", ds.dims)
	}
}
