#!/bin/bash
# Second triage pass: the demonstrations reproduce on commit aee12dc (before the four repairs 260efa6..7ee9fb6) and fail
# with "NOT reproduced"/"no panic" on the repaired tree.
export PATH=/opt/veriftools/go1.26.8/bin:$PATH GOFLAGS=-mod=mod GOPROXY=off GOTOOLCHAIN=local
W=$(mktemp -d /tmp/prefix-XXXX); rmdir $W
git -C /repo worktree add --detach -q $W aee12dc || exit 2
cp /verif/findings/C07/zz_triage3_core_replay_test.go $W/internal/core/
cp /verif/findings/C07/zz_triage3_hdf5_replay_test.go $W/
(cd $W && ulimit -v 6000000 && go test -vet=off -count=1 -timeout 300s -run 'TestTriage3' -v ./internal/core . 2>&1) | grep -E "^(--- |ok|FAIL)" | awk '{print $1,$2,$3}' | sort | uniq -c
git -C /repo worktree remove --force $W
