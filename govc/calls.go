package main

import (
	"sort"
	"os"
	"fmt"
	"go/token"
	"go/types"
	"strings"

	"golang.org/x/tools/go/ssa"
)

const (
	maxInlineDepth  = 3
	maxInlineInstrs = 80
)

func (fr *frame) call(x *ssa.Call) {
	ft := fr.ft
	c := &x.Call
	var args []*Val
	for _, a := range c.Args {
		args = append(args, fr.val(a))
	}
	res := fr.callCommon(x, c, args, x.Type(), x.Pos())
	if res == nil {
		res = fr.freshTuple(x.Name(), x.Type())
	}
	fr.registerFailure(x, c, args, res)
	if res.Tup == nil {
		if _, isTup := x.Type().(*types.Tuple); !isTup {
			fr.set(x, res)
			return
		}
	}
	fr.vals[x] = res
	_ = ft
}

func (fr *frame) callCommon(site ssa.Value, c *ssa.CallCommon, args []*Val, rt types.Type, pos token.Pos) *Val {
	ft := fr.ft
	e := ft.e
	if b, ok := c.Value.(*ssa.Builtin); ok {
		return fr.builtin(b.Name(), c, args, rt, pos)
	}
	if c.IsInvoke() {
		recv := fr.val(c.Value)
		name := c.Method.FullName()
		fr.oblige("nil", e.srcText(pos, "call"), pos, mkNot(mkEq(recv.L[0], intConst(0))))
		if in, ok := intrinsics[name]; ok {
			if r := in(fr, c, append([]*Val{recv}, args...), rt, pos); r != nil {
				return r
			}
		}
		// single known implementation with static dispatch? use interface contract if any
		if con := e.contracts[ifaceKey(c)]; con != nil {
			e.trust("interface contract assumed at dynamic dispatch: " + strings.TrimPrefix(con.Func, "iface:") + " (" + con.File + "); implementations are bound to it only where they carry the same clauses themselves")
			return fr.callByContract(con, nil, c, append([]*Val{recv}, args...), rt, pos)
		}
		fr.havocCall(c)
		return fr.freshTuple("inv$"+c.Method.Name(), rt)
	}
	callee := c.StaticCallee()
	var bind []*Val
	if callee == nil {
		fv := fr.val(c.Value)
		if fv.Fn != nil {
			callee = fv.Fn
			bind = fv.Bind
		}
	} else if mc, ok := c.Value.(*ssa.MakeClosure); ok {
		if fv := fr.val(mc); fv.Fn != nil {
			bind = fv.Bind
		}
	}
	if callee == nil {
		fr.havocCall(c)
		ft.note("dynamic call havocked")
		return fr.freshTuple("dyn", rt)
	}
	name := callee.String()
	if in, ok := intrinsics[name]; ok {
		if r := in(fr, c, args, rt, pos); r != nil {
			return r
		}
	}
	if con := e.contractOf(callee); con != nil && !con.InlineOnly {
		return fr.callByContract(con, callee, c, args, rt, pos)
	}
	if e.inModule(callee) && len(callee.Blocks) > 0 && fr.depth < maxInlineDepth && e.inlinable(callee) {
		return fr.inline(callee, args, bind, rt, pos)
	}
	if ft.fn == nil && e.inModule(callee) && len(callee.Blocks) > 0 && fr.depth < maxInlineDepth+1 && e.inlinableInLemma(callee) {
		return fr.inlineWith(callee, args, bind, rt, pos, e.contractOf(callee))
	}
	if len(callee.Blocks) > 0 && callee.Parent() != nil && fr.depth < maxInlineDepth && e.inlinable(callee) {
		return fr.inline(callee, args, bind, rt, pos)
	}
	fr.havocCall(c)
	r := fr.freshTuple("call$"+callee.Name(), rt)
	return r
}

// ifaceKey: "iface:pkg.Type.Method" for a method of a named interface type.
func ifaceKey(c *ssa.CallCommon) string {
	t := c.Value.Type()
	if n, ok := types.Unalias(t).(*types.Named); ok && n.Obj().Pkg() != nil {
		return "iface:" + n.Obj().Pkg().Name() + "." + n.Obj().Name() + "." + c.Method.Name()
	}
	return "iface:" + c.Method.FullName()
}

// havocCall havocs the memory a call may write.
func (fr *frame) havocCall(c *ssa.CallCommon) {
	ft := fr.ft
	ms := &modSet{comps: map[string]bool{}}
	ft.e.modsOfCall(c, ms, map[*ssa.Function]bool{})
	if ms.all {
		ft.havocAll(fr.cur.mem)
		return
	}
	// Components the callee writes only in memory it allocates itself keep their contents at every
	// reference that exists now. The callee's allocations live in a reserved block of references above
	// the current allocation counter (the caller's later allocations come after that block).
	if os.Getenv("GOVC_DEBUG_MODS") != "" {
		var nf, fo []string
		for k := range ms.comps {
			if ms.nonFresh[k] {
				nf = append(nf, k)
			} else {
				fo = append(fo, k)
			}
		}
		sort.Strings(nf)
		sort.Strings(fo)
		fmt.Fprintf(os.Stderr, "MODS %s: nonfresh=%v freshonly=%v\n", c.Value.Name(), nf, fo)
	}
	bound := allocBase + int64(ft.nalloc)
	reserved := false
	var ks []string
	for k := range ms.comps {
		ks = append(ks, k)
	}
	sort.Strings(ks)
	for _, k := range ks {
		sortS, known := ft.compSort[k]
		if ms.nonFresh[k] || !known || os.Getenv("GOVC_NO_FRESH_FRAME") != "" {
			ft.havocComp(fr.cur.mem, k)
			fr.checkLoopMod(k)
			continue
		}
		old := ft.memGet(fr.cur.mem, k, sortS)
		ft.havocComp(fr.cur.mem, k)
		fr.checkLoopMod(k)
		if !reserved {
			reserved = true
			ft.nalloc += calleeAllocBlock
		}
		nv := ft.memGet(fr.cur.mem, k, sortS)
		r := ft.c.BoundVar("r")
		rt := Term{SInt, r}
		ft.c.Assume(nv, ft.c.Quant(false, r, SInt, mkImp(app(SBool, "<=", rt, intConst(bound)), mkEq(mkSelect(nv, rt), mkSelect(old, rt)))))
	}
}

// calleeAllocBlock: number of references reserved for the allocations of one havocked call.
const calleeAllocBlock = 1 << 20

// inlinableInLemma: inside lemma blocks nested callees may contain loops (cut with their contract's invariants,
// or simply havocked when the path through the loop is not taken) and may be larger.
func (e *Env) inlinableInLemma(f *ssa.Function) bool {
	n := 0
	for _, b := range f.Blocks {
		for _, in := range b.Instrs {
			if _, isDbg := in.(*ssa.DebugRef); !isDbg {
				n++
			}
			switch in.(type) {
			case *ssa.Defer, *ssa.Go, *ssa.Select:
				return false
			}
		}
	}
	return n <= 600 && f.Recover == nil
}

func (e *Env) inlinable(f *ssa.Function) bool {
	e.mu.Lock()
	v, ok0 := e.inlCache[f]
	e.mu.Unlock()
	if ok0 {
		return v
	}
	n := 0
	ok := true
	for _, b := range f.Blocks {
		for _, s := range b.Succs {
			if s.Dominates(b) {
				ok = false // has a loop
			}
		}
		for _, in := range b.Instrs {
			if _, isDbg := in.(*ssa.DebugRef); !isDbg {
				n++
			}
			switch in.(type) {
			case *ssa.Defer, *ssa.Go, *ssa.Select:
				ok = false
			}
		}
	}
	if n > maxInlineInstrs {
		ok = false
	}
	if f.Recover != nil {
		ok = false
	}
	e.mu.Lock()
	e.inlCache[f] = ok
	e.mu.Unlock()
	return ok
}

func (fr *frame) inline(callee *ssa.Function, args []*Val, bind []*Val, rt types.Type, pos token.Pos) *Val {
	return fr.inlineWith(callee, args, bind, rt, pos, nil)
}

func (fr *frame) inlineWith(callee *ssa.Function, args []*Val, bind []*Val, rt types.Type, pos token.Pos, con *Contract) *Val {
	ft := fr.ft
	sub := &frame{ft: ft, fn: callee, depth: fr.depth + 1, vals: map[ssa.Value]*Val{}, dbg: map[types.Object][]ssa.Value{}, free: bind, con: con}
	sub.inl = callee.Name()
	if fr.inl != "" {
		sub.inl = fr.inl + "/" + callee.Name()
	}
	for i, p := range callee.Params {
		if i < len(args) {
			a := *args[i]
			a.T = p.Type()
			sub.vals[p] = &a
		}
	}
	sub.args = args
	sub.oldMem = fr.cur.mem
	sub.run(fr.cur.pc, fr.cur.mem.clone())
	if len(sub.rets) == 0 {
		// never returns (always panics): path ends
		fr.cur.pc = tFalse
		return fr.freshTuple("noret", rt)
	}
	// merge return sites
	var conds []Term
	for _, r := range sub.rets {
		conds = append(conds, r.pc)
	}
	pc := ft.c.Define("pcret", mkOr(conds...))
	// memory: reuse mergeMem machinery through a fake exit table
	mem := sub.rets[len(sub.rets)-1].mem
	if len(sub.rets) > 1 {
		mem = fr.mergeRetMem(sub.rets)
	}
	fr.cur = &bstate{pc: pc, mem: mem}
	nres := len(sub.rets[0].vals)
	var outs []*Val
	for i := 0; i < nres; i++ {
		acc := sub.rets[len(sub.rets)-1].vals[i]
		for j := len(sub.rets) - 2; j >= 0; j-- {
			acc = ft.iteVal(sub.rets[j].pc, sub.rets[j].vals[i], acc)
		}
		outs = append(outs, ft.nameVal("r$"+callee.Name(), acc))
	}
	switch nres {
	case 0:
		return &Val{T: rt, Tup: []*Val{}}
	case 1:
		return outs[0]
	}
	return &Val{T: rt, Tup: outs}
}

func (fr *frame) mergeRetMem(rets []retSite) *Mem {
	// build a temporary frame-like structure for mergeMem
	tmp := &frame{ft: fr.ft, exit: map[*ssa.BasicBlock]*bstate{}}
	var preds []*ssa.BasicBlock
	var conds []Term
	for i, r := range rets {
		b := &ssa.BasicBlock{Index: 100000 + i}
		tmp.exit[b] = &bstate{pc: r.pc, mem: r.mem}
		preds = append(preds, b)
		conds = append(conds, r.pc)
	}
	return tmp.mergeMem(preds, conds)
}

// ---------------------------------------------------------------------------
// builtins

func (fr *frame) builtin(name string, c *ssa.CallCommon, args []*Val, rt types.Type, pos token.Pos) *Val {
	ft := fr.ft
	switch name {
	case "len":
		a := args[0]
		t := c.Args[0].Type()
		switch {
		case isSlice(t):
			return &Val{T: rt, L: []Term{a.sLen()}}
		case isString(t):
			return &Val{T: rt, L: []Term{a.strLen()}}
		}
		if at, ok := t.Underlying().(*types.Array); ok {
			return &Val{T: rt, L: []Term{idxInt(at.Len())}}
		}
		if pt, ok := t.Underlying().(*types.Pointer); ok {
			if at, ok := pt.Elem().Underlying().(*types.Array); ok {
				return &Val{T: rt, L: []Term{idxInt(at.Len())}}
			}
		}
		r := ft.freshVal("len", rt)
		ft.c.Assume(r.L[0], uLe(r.L[0], idxInt(maxLen)))
		return r
	case "cap":
		a := args[0]
		if isSlice(c.Args[0].Type()) {
			return &Val{T: rt, L: []Term{a.sCap()}}
		}
		r := ft.freshVal("cap", rt)
		ft.c.Assume(r.L[0], uLe(r.L[0], idxInt(maxLen)))
		return r
	case "append":
		return fr.appendOp(c, args, rt, pos)
	case "copy":
		return fr.copyOp(c, args, rt, pos)
	case "panic":
		fr.oblige("panic-call", ft.e.srcText(pos, "call"), pos, tFalse)
		return &Val{T: rt, Tup: []*Val{}}
	case "min", "max":
		if w, signed, ok := isIntType(rt); ok && len(args) >= 1 {
			acc := args[0].L[0]
			for _, a := range args[1:] {
				op := "bvult"
				if signed {
					op = "bvslt"
				}
				var c Term
				if name == "min" {
					c = app(SBool, op, a.L[0], acc)
				} else {
					c = app(SBool, op, acc, a.L[0])
				}
				acc = mkIte(c, a.L[0], acc)
			}
			_ = w
			return &Val{T: rt, L: []Term{acc}}
		}
	case "delete", "print", "println", "clear", "close", "recover":
		if name == "recover" {
			ft.note("recover present")
		}
		if _, ok := rt.(*types.Tuple); ok {
			return &Val{T: rt, Tup: []*Val{}}
		}
		return ft.freshVal(name, rt)
	}
	ft.note("builtin " + name + " havocked")
	return fr.freshTuple(name, rt)
}

// litInt returns the value of a bit-vector literal term.
func litInt(t Term) (int64, bool) {
	if t.S == SInt {
		if v, ok := intLitVal(t); ok && v.IsInt64() {
			return v.Int64(), true
		}
		return 0, false
	}
	var v int64
	var w int
	if n, err := fmt.Sscanf(t.T, "(_ bv%d %d)", &v, &w); err == nil && n == 2 {
		return v, true
	}
	return 0, false
}

// elemLeafComps: for slice type t, per leaf of the element type: component name, component sort, leaf sort.
type leafComp struct {
	name, sort, leaf string
}

func elemLeafComps(lv *LV, et types.Type) []leafComp {
	// lv designates the backing array (type [N]et); we want components per leaf of et lifted once.
	arr := &LV{Root: lv.Root, Ref: lv.Ref, Steps: lv.Steps, T: types.NewArray(et, 1)}
	var out []leafComp
	for _, l := range leavesOf(arr.T) {
		n, s := compFor(arr, l)
		out = append(out, leafComp{n, s, l.Sort})
	}
	return out
}

func (fr *frame) copyOp(c *ssa.CallCommon, args []*Val, rt types.Type, pos token.Pos) *Val {
	ft := fr.ft
	dst, src := args[0], args[1]
	et := sliceElem(c.Args[0].Type())
	var srcLen Term
	srcIsStr := isString(c.Args[1].Type())
	if srcIsStr {
		srcLen = src.strLen()
	} else {
		srcLen = src.sLen()
	}
	n := ft.c.Define("copyn", mkIte(app(SBool, "bvult", srcLen, dst.sLen()), srcLen, dst.sLen()))
	dbk := dst.backing()
	if len(dbk.idxs()) > 0 {
		ft.note("copy into nested array region havocked")
		for _, lc := range elemLeafComps(dbk, et) {
			ft.havocComp(fr.cur.mem, lc.name)
			fr.checkLoopMod(lc.name)
		}
		return &Val{T: rt, L: []Term{n}}
	}
	var sbk *LV
	if !srcIsStr {
		sbk = src.backing()
		if len(sbk.idxs()) > 0 {
			sbk = nil
		}
	}
	dcomps := elemLeafComps(dbk, et)
	{
		var cs []string
		for _, lc := range dcomps {
			cs = append(cs, lc.name)
		}
		lo := dst.sOff()
		hi := app(SIdx, "bvadd", lo, n)
		fr.frameCheckRange(cs, dbk.Ref, &lo, &hi, "copy", pos)
	}
	for li, lc := range dcomps {
		darrAll := ft.memGet(fr.cur.mem, lc.name, lc.sort)
		darr := mkSelect(darrAll, dbk.Ref)
		var sarr Term
		var soff Term
		switch {
		case srcIsStr:
			sarr, soff = src.strArr(), src.strOff()
		case sbk != nil:
			scs := elemLeafComps(sbk, et)
			sarr = mkSelect(ft.memGet(fr.cur.mem, scs[li].name, scs[li].sort), sbk.Ref)
			soff = src.sOff()
		default:
			sarr = ft.c.Fresh("copysrc", lc.leaf)
			soff = idxInt(0)
		}
		var narr Term
		if k, ok := litInt(srcLen); ok && k <= 16 {
			narr = darr
			for j := int64(0); j < k; j++ {
				jj := idxInt(j)
				di := app(SIdx, "bvadd", dst.sOff(), jj)
				nv := mkIte(app(SBool, "bvult", jj, n), mkSelect(sarr, app(SIdx, "bvadd", soff, jj)), mkSelect(darr, di))
				narr = mkStore(narr, di, nv)
			}
		} else {
			na := ft.c.Fresh("copyarr", lc.leaf)
			k := ft.c.BoundVar("k")
			// memmove semantics: source read from the pre-state
			kt := Term{SIdx, k}
			inr := mkAnd(app(SBool, "bvule", dst.sOff(), kt), app(SBool, "bvult", kt, app(SIdx, "bvadd", dst.sOff(), n)))
			ft.c.Assume(na, ft.c.Quant(false, k, SIdx, mkEq(mkSelect(na, kt),
				mkIte(inr, mkSelect(sarr, app(SIdx, "bvadd", soff, app(SIdx, "bvsub", kt, dst.sOff()))), mkSelect(darr, kt)))))
			narr = na
		}
		fr.cur.mem.m[lc.name] = ft.c.Define("m$"+lc.name, mkStore(darrAll, dbk.Ref, narr))
		fr.checkLoopMod(lc.name)
	}
	return &Val{T: rt, L: []Term{n}}
}

func (fr *frame) appendOp(c *ssa.CallCommon, args []*Val, rt types.Type, pos token.Pos) *Val {
	ft := fr.ft
	s := args[0]
	et := sliceElem(c.Args[0].Type())
	if len(args) < 2 {
		return s
	}
	t := args[1]
	tIsStr := isString(c.Args[1].Type())
	var tLen, tOff Term
	if tIsStr {
		tLen, tOff = t.strLen(), t.strOff()
	} else {
		tLen, tOff = t.sLen(), t.sOff()
	}
	sbk := s.backing()
	if len(sbk.idxs()) > 0 || s.Rg != nil {
		ft.note("append to slice of field array havocked")
		for _, k := range elemComps(c.Args[0].Type()) {
			ft.havocComp(fr.cur.mem, k)
			fr.checkLoopMod(k)
		}
		return ft.freshVal("append", rt)
	}
	newLen := ft.c.Define("applen", app(SIdx, "bvadd", s.sLen(), tLen))
	fits := ft.c.Define("appfits", app(SBool, "bvule", newLen, s.sCap()))
	newRef := ft.newRef()
	newCap := ft.c.Fresh("appcap", SIdx)
	ft.c.Assume(newCap, mkAnd(app(SBool, "bvuge", newCap, newLen), app(SBool, "bvule", newCap, idxInt(2*maxLen))))
	var tbk *LV
	if !tIsStr {
		tbk = t.backing()
		if len(tbk.idxs()) > 0 {
			tbk = nil
		}
	}
	base := ft.c.Define("appbase", app(SIdx, "bvadd", s.sOff(), s.sLen()))
	comps := elemLeafComps(sbk, et)
	if ft.topCon != nil && ft.topCon.HasAssigns && ft.fn != nil {
		var cs []string
		for _, lc := range comps {
			cs = append(cs, lc.name)
		}
		// an in-place append writes the backing array of s
		save := fr.cur.pc
		fr.cur.pc = ft.c.Define("pc", mkAnd(fr.cur.pc, fits))
		fr.frameCheck(cs, s.sRef(), "append", pos)
		fr.cur.pc = save
	}
	for li, lc := range comps {
		all := ft.memGet(fr.cur.mem, lc.name, lc.sort)
		sarr := mkSelect(all, s.sRef())
		var tarr Term
		switch {
		case tIsStr:
			tarr = t.strArr()
		case tbk != nil:
			tcs := elemLeafComps(tbk, et)
			tarr = mkSelect(ft.memGet(fr.cur.mem, tcs[li].name, tcs[li].sort), tbk.Ref)
		default:
			tarr = ft.c.Fresh("appsrc", lc.leaf)
		}
		var narr Term
		if k, ok := litInt(tLen); ok && k <= 16 {
			narr = sarr
			for j := int64(0); j < k; j++ {
				jj := idxInt(j)
				narr = mkStore(narr, app(SIdx, "bvadd", base, jj), mkSelect(tarr, app(SIdx, "bvadd", tOff, jj)))
			}
		} else {
			na := ft.c.Fresh("apparr", lc.leaf)
			k := ft.c.BoundVar("k")
			kt := Term{SIdx, k}
			inr := mkAnd(app(SBool, "bvule", base, kt), app(SBool, "bvult", kt, app(SIdx, "bvadd", base, tLen)))
			ft.c.Assume(na, ft.c.Quant(false, k, SIdx, mkEq(mkSelect(na, kt),
				mkIte(inr, mkSelect(tarr, app(SIdx, "bvadd", tOff, app(SIdx, "bvsub", kt, base))), mkSelect(sarr, kt)))))
			narr = na
		}
		narr = ft.c.Define("apparrv", narr)
		// in place: update s.ref; fresh: new ref gets the updated copy, old ref unchanged
		upd := mkIte(fits, mkStore(all, s.sRef(), narr), mkStore(all, newRef, narr))
		fr.cur.mem.m[lc.name] = ft.c.Define("m$"+lc.name, upd)
		fr.checkLoopMod(lc.name)
	}
	out := &Val{T: rt, L: []Term{
		mkIte(fits, s.sRef(), newRef),
		s.sOff(),
		newLen,
		mkIte(fits, s.sCap(), newCap),
	}}
	// appending to a nil slice with nothing to add keeps nil; ignore (ref may be fresh) — harmless
	return out
}

// ---------------------------------------------------------------------------

func (e *Env) inModule(f *ssa.Function) bool {
	if f.Pkg != nil {
		return strings.HasPrefix(f.Pkg.Pkg.Path(), e.modPath)
	}
	if f.Parent() != nil {
		return e.inModule(f.Parent())
	}
	if o := f.Object(); o != nil && o.Pkg() != nil {
		return strings.HasPrefix(o.Pkg().Path(), e.modPath)
	}
	return false
}

func (e *Env) implementations(c *ssa.CallCommon) []*ssa.Function {
	it, ok := c.Value.Type().Underlying().(*types.Interface)
	if !ok {
		return nil
	}
	// only for interfaces declared in the module
	if n, ok := c.Value.Type().(*types.Named); !ok || n.Obj().Pkg() == nil || !strings.HasPrefix(n.Obj().Pkg().Path(), e.modPath) {
		return nil
	}
	var out []*ssa.Function
	for _, T := range e.allNamed {
		for _, cand := range []types.Type{T, types.NewPointer(T)} {
			if types.Implements(cand, it) {
				ms := e.prog.MethodSets.MethodSet(cand)
				if sel := ms.Lookup(c.Method.Pkg(), c.Method.Name()); sel != nil {
					if f := e.prog.MethodValue(sel); f != nil {
						out = append(out, f)
					}
				}
				break
			}
		}
	}
	return out
}

// registerFailure: fail-stop bookkeeping for a call site (kind failstop only).
func (fr *frame) registerFailure(x *ssa.Call, c *ssa.CallCommon, args []*Val, res *Val) {
	ft := fr.ft
	if !ft.kinds["failstop"] {
		return
	}
	name := calleeName(c)
	text := ft.e.srcText(x.Pos(), "call")
	// reads: a failure is a short read (n < len(p)); an EOF together with a full buffer is not a failure
	switch name {
	case "(io.ReaderAt).ReadAt", "io.ReadFull", "(io.Reader).Read":
		if res.Tup != nil && len(res.Tup) == 2 {
			var p *Val
			if name == "(io.ReaderAt).ReadAt" {
				p = args[0]
			} else if len(args) >= 2 {
				p = args[1]
			} else if len(args) == 1 {
				p = args[0]
			}
			if p != nil && isSlice(p.T) {
				fr.noteFailure(text, x.Pos(), app(SBool, "bvslt", res.Tup[0].L[0], p.sLen()))
			}
		}
		return
	}
	// any other call whose last result is an error
	var last *Val
	switch {
	case res.Tup != nil && len(res.Tup) > 0:
		last = res.Tup[len(res.Tup)-1]
	case res.Tup == nil:
		last = res
	}
	if last == nil || last.T == nil || !isInterface(last.T) || last.T.String() != "error" || len(last.L) == 0 {
		return
	}
	// error constructors are not failures of a callee
	if name == "errors.New" || name == "fmt.Errorf" || strings.HasPrefix(name, "errors.") {
		return
	}
	fr.noteFailure(text, x.Pos(), mkNot(mkEq(last.L[0], intConst(0))))
}
