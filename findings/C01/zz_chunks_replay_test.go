package writer

import "testing"

// KNOWN FINDING (C01): GetTotalChunks multiplies numChunks without an overflow check.
func TestReplayTotalChunksWrap(t *testing.T) {
	cc, err := NewChunkCoordinator([]uint64{1 << 32, 1 << 32}, []uint64{1, 1})
	if err != nil {
		t.Fatal(err)
	}
	if got := cc.GetTotalChunks(); got != 0 {
		t.Fatalf("expected the wrapped total 0 (defect), got %d", got)
	}
	t.Log("REPRODUCED: a 2^32 x 2^32 grid reports 0 chunks in total")
}

// FIXED (C01): NewChunkCoordinator([2^64-1],[2]) used to return a grid with numChunks == [0].
func TestReplayCeilDivWrapFixed(t *testing.T) {
	cc, err := NewChunkCoordinator([]uint64{1<<64 - 1}, []uint64{2})
	if err == nil {
		t.Fatalf("accepted: numChunks=%v", cc.NumChunks())
	}
}
