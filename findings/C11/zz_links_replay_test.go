package core

// Demonstrations for the findings recorded in zz_contracts_links_verif.go (property C11: every metadata encoder is
// inverted by its decoder). Every test PASSES while the defect is present and logs "REPRODUCED: ...".

import (
	"bytes"
	"encoding/binary"
	"io"
	"testing"
)

// memFile is a minimal in-memory io.WriterAt / io.ReaderAt.
type memFile struct{ b []byte }

func (m *memFile) WriteAt(p []byte, off int64) (int, error) {
	end := int(off) + len(p)
	if end > len(m.b) {
		nb := make([]byte, end)
		copy(nb, m.b)
		m.b = nb
	}
	copy(m.b[off:], p)
	return len(p), nil
}

func (m *memFile) ReadAt(p []byte, off int64) (int, error) {
	if int(off) >= len(m.b) {
		return 0, io.EOF
	}
	n := copy(p, m.b[off:])
	if n < len(p) {
		return n, io.EOF
	}
	return n, nil
}

// linkSoftRoundTrip (last two conclusions): Parse(Encode(lm)).LinkValue != lm.LinkValue for every soft link, and a decoded
// soft link cannot be encoded again.
func TestReplaySoftLinkValueNotInverted(t *testing.T) {
	sb := &Superblock{OffsetSize: 8, LengthSize: 8, Endianness: binary.LittleEndian}
	orig := &LinkMessage{Version: 1, Flags: LinkFlagLinkTypeFieldBit, Type: LinkTypeSoft, Name: "s",
		LinkValue: []byte{2, 0, 'a', 'b'}}
	enc, err := EncodeLinkMessage(orig, sb)
	if err != nil {
		t.Fatalf("encode: %v", err)
	}
	back, err := ParseLinkMessage(enc, sb)
	if err != nil {
		t.Fatalf("parse: %v", err)
	}
	if bytes.Equal(back.LinkValue, orig.LinkValue) {
		t.Fatalf("defect not present: LinkValue round-trips (%v)", back.LinkValue)
	}
	t.Logf("REPRODUCED: soft link LinkValue %v is decoded as %v (length field dropped): Parse(Encode(v)).LinkValue != v.LinkValue",
		orig.LinkValue, back.LinkValue)

	// Encode the decoded value again: the path length is now missing from the message.
	enc2, err := EncodeLinkMessage(back, sb)
	if err != nil {
		t.Fatalf("re-encode: %v", err)
	}
	back2, err2 := ParseLinkMessage(enc2, sb)
	if err2 == nil && bytes.Equal(back2.LinkValue, back.LinkValue) {
		t.Fatalf("defect not present: decoded soft link re-encodes faithfully")
	}
	t.Logf("REPRODUCED: re-encoding the decoded soft link gives % x; parsing that: value=%v err=%v", enc2, valueOf(back2), err2)

	// One-byte path in the decoder's convention: accepted by the encoder, rejected by the decoder (linkSoftReencodeShort).
	short := &LinkMessage{Version: 1, Flags: LinkFlagLinkTypeFieldBit, Type: LinkTypeSoft, Name: "s", LinkValue: []byte{'x'}}
	enc3, err := EncodeLinkMessage(short, sb)
	if err != nil {
		t.Fatalf("encode short: %v", err)
	}
	if _, err := ParseLinkMessage(enc3, sb); err == nil {
		t.Fatalf("defect not present: short soft link parses")
	} else {
		t.Logf("REPRODUCED: soft link with 1-byte value is encoded without error and rejected by the decoder: %v", err)
	}
}

func valueOf(lm *LinkMessage) []byte {
	if lm == nil {
		return nil
	}
	return lm.LinkValue
}

// linkOtherTypeRejected / linkLongNameRejected: values the encoder accepts and the decoder rejects.
func TestReplayLinkEncoderAcceptsWhatDecoderRejects(t *testing.T) {
	sb := &Superblock{OffsetSize: 8, LengthSize: 8, Endianness: binary.LittleEndian}
	ud := &LinkMessage{Version: 1, Flags: LinkFlagLinkTypeFieldBit, Type: LinkType(65), Name: "u", LinkValue: []byte{1, 2, 3}}
	enc, err := EncodeLinkMessage(ud, sb)
	if err != nil {
		t.Fatalf("encode: %v", err)
	}
	if _, err := ParseLinkMessage(enc, sb); err == nil {
		t.Fatalf("defect not present: user-defined link type parses")
	} else {
		t.Logf("REPRODUCED: user-defined link type 65 is encoded without error and rejected by the decoder: %v", err)
	}
	long := &LinkMessage{Version: 1, Flags: 2, Type: LinkTypeHard, Name: string(make([]byte, 1024*1024+1)), LinkValue: make([]byte, 8)}
	enc, err = EncodeLinkMessage(long, sb)
	if err != nil {
		t.Fatalf("encode long: %v", err)
	}
	if _, err := ParseLinkMessage(enc, sb); err == nil {
		t.Fatalf("defect not present: long name parses")
	} else {
		t.Logf("REPRODUCED: a name of 1 MiB + 1 bytes is encoded without error and rejected by the decoder: %v", err)
	}
}

// writeToV2 `claims err == nil ==> ohw.Flags & 0x37 == 0`: the writer copies the flags byte into the header but always
// writes the layout of flags == 0, so the reader (which honours the flags) misreads the header.
func TestReplayObjectHeaderFlagsNotHonoured(t *testing.T) {
	sb := &Superblock{OffsetSize: 8, LengthSize: 8, Endianness: binary.LittleEndian}
	payload := []byte{1, 2, 3, 4, 5, 6, 7, 8, 9, 10}
	for _, flags := range []uint8{0x00, 0x01, 0x04, 0x10, 0x20} {
		ohw := &ObjectHeaderWriter{Version: 2, Flags: flags, Messages: []MessageWriter{
			{Type: MsgDatatype, Data: payload}, {Type: MsgDataspace, Data: payload}}}
		f := &memFile{}
		n, err := ohw.WriteTo(f, 0)
		if err != nil {
			t.Fatalf("flags %#x: write: %v", flags, err)
		}
		// room behind the header so that reads past it do not fail for a trivial reason
		_, _ = f.WriteAt(make([]byte, 64), int64(n))
		oh, err := ReadObjectHeader(f, 0, sb)
		ok := err == nil && len(oh.Messages) == 2 &&
			oh.Messages[0].Type == MsgDatatype && bytes.Equal(oh.Messages[0].Data, payload) &&
			oh.Messages[1].Type == MsgDataspace && bytes.Equal(oh.Messages[1].Data, payload)
		if flags == 0 {
			if !ok {
				t.Fatalf("flags 0: header does not round-trip: %v", err)
			}
			continue
		}
		if ok {
			t.Fatalf("defect not present: flags %#x round-trips", flags)
		}
		got := -1
		if oh != nil {
			got = len(oh.Messages)
		}
		t.Logf("REPRODUCED: header written with Flags=%#x (%d bytes, accepted by WriteTo) is misread: err=%v, %d messages", flags, n, err, got)
	}
}

// Layout facts that hold for flags == 0 (what the loop invariants of writeToV2 state), plus the missing checksum: the
// header ends with the last message, and the chunk size byte counts the message bytes only.
func TestReplayObjectHeaderNoChecksum(t *testing.T) {
	payload := []byte{0xAA, 0xBB, 0xCC}
	ohw := &ObjectHeaderWriter{Version: 2, Flags: 0, Messages: []MessageWriter{{Type: MsgDatatype, Data: payload}}}
	f := &memFile{}
	n, err := ohw.WriteTo(f, 0)
	if err != nil {
		t.Fatalf("write: %v", err)
	}
	want := []byte{'O', 'H', 'D', 'R', 2, 0, 7, byte(MsgDatatype), 3, 0, 0, 0xAA, 0xBB, 0xCC}
	if n != uint64(len(want)) || !bytes.Equal(f.b, want) {
		t.Fatalf("unexpected layout: % x", f.b)
	}
	t.Logf("REPRODUCED: object header v2 is written as % x: %d bytes, chunk size %d, no 4-byte checksum after the messages "+
		"(the format requires one; parseV2Header subtracts 4 from the chunk size for it)", f.b, n, f.b[6])
}

// A message with empty data is written (4 bytes) but dropped by the reader (msgSize == 0 is skipped), and the reader's
// `end = current + chunkSize - 4` makes it ignore a trailing message of up to 4 bytes: the message list does not round-trip.
func TestReplayObjectHeaderEmptyMessageDropped(t *testing.T) {
	sb := &Superblock{OffsetSize: 8, LengthSize: 8, Endianness: binary.LittleEndian}
	ohw := &ObjectHeaderWriter{Version: 2, Flags: 0, Messages: []MessageWriter{
		{Type: MsgDatatype, Data: []byte{1, 2, 3}}, {Type: MsgDataspace, Data: nil}}}
	f := &memFile{}
	n, err := ohw.WriteTo(f, 0)
	if err != nil {
		t.Fatalf("write: %v", err)
	}
	_, _ = f.WriteAt(make([]byte, 64), int64(n))
	oh, err := ReadObjectHeader(f, 0, sb)
	if err != nil {
		t.Fatalf("read: %v", err)
	}
	if len(oh.Messages) == 2 {
		t.Fatalf("defect not present: both messages read back")
	}
	t.Logf("REPRODUCED: header written with 2 messages (second has empty data) reads back with %d message(s)", len(oh.Messages))
}
