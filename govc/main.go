package main

import (
	"flag"
	"fmt"
	"os"
	"regexp"
	"sort"
	"strings"
	"time"

	"golang.org/x/tools/go/ssa"
)

func main() {
	if len(os.Args) < 2 {
		fmt.Fprintln(os.Stderr, "usage: govc <sweep|check|selftest|list> ...")
		os.Exit(2)
	}
	switch os.Args[1] {
	case "sweep":
		cmdSweep(os.Args[2:])
	case "check":
		cmdCheck(os.Args[2:])
	case "list":
		cmdList(os.Args[2:])
	default:
		fmt.Fprintln(os.Stderr, "unknown command", os.Args[1])
		os.Exit(2)
	}
}

func mustEnv(repo string) *Env {
	// go/packages shells out to `go list`: make sure the matching toolchain is first on PATH
	os.Setenv("PATH", "/opt/veriftools/go1.26.8/bin:"+os.Getenv("PATH"))
	os.Setenv("GOTOOLCHAIN", "local")
	os.Setenv("GOFLAGS", "-mod=mod")
	os.Setenv("GOPROXY", "off")
	e, err := loadEnv(repo)
	if err != nil {
		fmt.Fprintln(os.Stderr, "load:", err)
		os.Exit(3)
	}
	if err := e.loadContracts(); err != nil {
		fmt.Fprintln(os.Stderr, "contracts:", err)
		os.Exit(3)
	}
	return e
}

func cmdList(args []string) {
	fs := flag.NewFlagSet("list", flag.ExitOnError)
	repo := fs.String("repo", "/repo", "repository")
	pat := fs.String("f", ".", "regexp on function names")
	fs.Parse(args)
	e := mustEnv(*repo)
	re := regexp.MustCompile(*pat)
	var ns []string
	for n := range e.funcs {
		if re.MatchString(n) {
			ns = append(ns, n)
		}
	}
	sort.Strings(ns)
	for _, n := range ns {
		fmt.Println(n)
	}
}

// cmdSweep: developer command — verify the functions matching a regexp and print every obligation.
func cmdSweep(args []string) {
	fs := flag.NewFlagSet("sweep", flag.ExitOnError)
	repo := fs.String("repo", "/repo", "repository")
	pat := fs.String("f", ".", "regexp on function names")
	to := fs.Int("t", 10, "timeout seconds")
	verbose := fs.Bool("v", false, "print scripts of failed obligations")
	kinds := fs.String("kinds", "", "extra obligation kinds (comma separated)")
	dump := fs.String("dump", "", "directory to dump scripts of failed obligations")
	lem := fs.String("l", "", "regexp on lemma names (verified in addition)")
	fs.Parse(args)
	t0 := time.Now()
	e := mustEnv(*repo)
	fmt.Fprintf(os.Stderr, "loaded in %.1fs, %d functions, %d contracts\n", time.Since(t0).Seconds(), len(e.funcs), len(e.contracts))
	re := regexp.MustCompile(*pat)
	var ns []string
	for n := range e.funcs {
		if re.MatchString(n) {
			ns = append(ns, n)
		}
	}
	sort.Strings(ns)
	var extra []string
	if *kinds != "" {
		extra = strings.Split(*kinds, ",")
	}
	var fns []*ssa.Function
	for _, n := range ns {
		fns = append(fns, e.funcs[n])
	}
	var lems []*Lemma
	if *lem != "" {
		lre := regexp.MustCompile(*lem)
		for _, lm := range e.lemmas {
			if lre.MatchString(lm.Name) {
				lems = append(lems, lm)
			}
		}
	}
	results := e.generateAll(fns, lems, extra)
	fmt.Fprintf(os.Stderr, "generated in %.1fs\n", time.Since(t0).Seconds())
	solveAll(results, solveCfg{quickS: 3, fullS: *to, workers: 16})
	nd, nf := 0, 0
	for _, r := range results {
		if r.Fatal != "" {
			fmt.Printf("FATAL %s: %s\n", r.Func, r.Fatal)
			continue
		}
		for _, ob := range r.Obs {
			if ob.Status == "discharged" || ob.Status == "cover-ok" {
				nd++
				if *verbose {
					fmt.Printf("ok    %-70s %s %.2fs\n", ob.Name, ob.Backend, ob.Time)
				}
				continue
			}
			nf++
			fmt.Printf("%-14s %s  [%s] %s %.2fs %v\n", ob.Status, ob.Name, ob.Pos, ob.Backend, ob.Time, ob.Model)
			if *dump != "" {
				os.MkdirAll(*dump, 0o755)
				nm := sanitize(ob.Name)
				if len(nm) > 150 {
					nm = nm[:150]
				}
				os.WriteFile(fmt.Sprintf("%s/%s.smt2", *dump, nm), []byte(ob.Script), 0o644)
				if ob.InstScript != "" {
					os.WriteFile(fmt.Sprintf("%s/%s.inst.smt2", *dump, nm), []byte(ob.InstScript), 0o644)
				}
			}
		}
		if len(r.Partial) > 0 && *verbose {
			fmt.Printf("  partial %s: %v\n", r.Func, r.Partial)
		}
	}
	fmt.Printf("functions=%d discharged=%d failed=%d wall=%.1fs\n", len(results), nd, nf, time.Since(t0).Seconds())
}

