package core

// Findings for check C17 ("fail-stop on truncated files / failing reads"), package core.
// Every test FAILS on the current code with a message starting "FINDING:".
//
// Note on readers: bytes.Reader (like *os.File) reports a short read at end of data as
// (n < len(p), io.EOF). The mock in internal/testing reports it as a non-EOF error, which the
// code under test does propagate -- the defects below are specific to the io.EOF tolerance.

import (
	"bytes"
	"encoding/binary"
	"os"
	"testing"

	"github.com/scigolib/hdf5/internal/utils"
)

func c17SB() *Superblock {
	return &Superblock{Version: 2, OffsetSize: 8, LengthSize: 8, Endianness: binary.LittleEndian}
}

// Sites (one mechanism, nine flagged variants):
//
//	core.(*FilterPipelineMessage).ApplyFilters#failstop#applyFilter(filter, result) (error ignored, loop continues)
//	... #applyFilter/applyDeflate(data), #applyFilter/applyShuffle(data, filter.ClientData),
//	... #applyFilter/applyFletcher32(data), #applyFilter/applyBZIP2(data),
//	... #applyFilter/applyBZIP2/io.ReadAll(reader), #applyFilter/applyLZF(data),
//	... #applyFilter/applyLZF/lzfDecompress(data), #applyFilter/applySZIP(data)
//
// `result, err = applyFilter(filter, result)` assigns nil to result on failure; for a filter
// whose flags have bit 0 ("optional") set the loop then `continue`s, so the chunk bytes are
// lost and the function returns (nil, nil) -- or, when an LZF filter with cd_values[2] follows,
// a zero-filled chunk.
// Intact answer: either the decoded chunk or an error; never nil/zero data with a nil error.
// Fault model: undecodable (corrupt) chunk bytes, or an optional filter this build cannot
// decode at all (SZIP) -- chunk reads are strict, so plain truncation does not get here.
func TestFindingC17_ApplyFiltersOptionalFailureLosesChunk(t *testing.T) {
	garbage := []byte{0xFF, 0xFF, 0xFF, 0xFF, 0xFF, 0xFF, 0xFF, 0xFF}
	cases := []struct {
		name   string
		filter Filter
		data   []byte
	}{
		{"applySZIP", Filter{ID: FilterSZIP, Flags: 1}, []byte{1, 2, 3, 4, 5, 6, 7, 8}},
		{"applyLZF/lzfDecompress", Filter{ID: FilterLZF, Flags: 1}, garbage},
		{"applyBZIP2/io.ReadAll", Filter{ID: FilterBZIP2, Flags: 1}, garbage},
		{"applyDeflate", Filter{ID: FilterDeflate, Flags: 1}, garbage},
		{"applyFletcher32", Filter{ID: FilterFletcher, Flags: 1}, []byte{1, 2, 3}},
		{"applyShuffle", Filter{ID: FilterShuffle, Flags: 1, ClientData: []uint32{3}}, garbage},
		{"applyFilter(default)", Filter{ID: FilterNBit, Flags: 1}, garbage},
	}
	for _, c := range cases {
		t.Run(c.name, func(t *testing.T) {
			// Precondition: the filter really fails on this input.
			if _, err := applyFilter(c.filter, c.data); err == nil {
				t.Skipf("filter unexpectedly succeeded")
			}
			fp := &FilterPipelineMessage{Version: 2, NumFilters: 1, Filters: []Filter{c.filter}}
			out, err := fp.ApplyFilters(c.data)
			if err == nil && !bytes.Equal(out, c.data) {
				t.Errorf("FINDING: optional filter %s failed on an %d-byte chunk, ApplyFilters returned (%v, nil): the chunk bytes are silently lost",
					c.name, len(c.data), out)
			}
		})
	}

	// Two-filter pipeline as written by h5py with fletcher32=True, compression='lzf':
	// [LZF (cd_values[2] = 16 = chunk bytes), Fletcher32 (optional here)].
	// A 3-byte chunk cannot carry the 4-byte checksum: Fletcher32 fails, result becomes nil,
	// LZF sees an empty input and the "pad to expected size" step fabricates 16 zero bytes.
	t.Run("zero-filled chunk fabricated", func(t *testing.T) {
		fp := &FilterPipelineMessage{Version: 2, NumFilters: 2, Filters: []Filter{
			{ID: FilterLZF, Flags: 0, ClientData: []uint32{4, 261, 16}},
			{ID: FilterFletcher, Flags: 1},
		}}
		out, err := fp.ApplyFilters([]byte{1, 2, 3})
		if err == nil {
			t.Errorf("FINDING: Fletcher32 failed on a 3-byte chunk, ApplyFilters returned %v with nil error (fabricated zero chunk)", out)
		}
	})
}

// Site: core.ReadSuperblock#failstop#r.ReadAt(buf, 0)#7
// (short read accepted when n >= 48, but a version-0 superblock is 96 bytes long and the
// root-group address / cached B-tree / heap addresses are taken from offsets 64, 80 and 88 of
// the 128-byte buffer -- bytes that were never read. The buffer comes from a sync.Pool and is
// not cleared, so those bytes are whatever an earlier user left there.)
//
// Input: the first 60 bytes of testdata/v0.h5. Intact answer: RootGroup=96, RootBTreeAddr=136,
// RootHeapAddr=680. Through hdf5.Open the defect is masked (later reads beyond EOF fail), but
// ReadSuperblock itself returns a different superblock with a nil error.
func TestFindingC17_ReadSuperblockShortReadV0(t *testing.T) {
	data, err := os.ReadFile("../../testdata/v0.h5")
	if err != nil {
		t.Fatal(err)
	}
	// Make the stale-buffer contents deterministic.
	poison := utils.GetBuffer(128)
	for i := range poison {
		poison[i] = 0xAA
	}
	utils.ReleaseBuffer(poison)

	sb, err := ReadSuperblock(bytes.NewReader(data[:60]))
	if err != nil {
		return
	}
	if sb.RootGroup != 96 || sb.RootBTreeAddr != 136 || sb.RootHeapAddr != 680 {
		t.Errorf("FINDING: ReadSuperblock on a 60-byte prefix of a v0 file returned nil error with RootGroup=%#x RootBTreeAddr=%#x RootHeapAddr=%#x (bytes never read); intact file gives 96/136/680",
			sb.RootGroup, sb.RootBTreeAddr, sb.RootHeapAddr)
	}
}

// c17BTHD builds a 38-byte B-tree v2 header (type 8 = attribute name index).
func c17BTHD(rootAddr uint64, numRecords uint16) []byte {
	b := make([]byte, 38)
	copy(b, "BTHD")
	b[4] = 0                                  // version
	b[5] = 8                                  // type
	binary.LittleEndian.PutUint32(b[6:], 512) // node size
	binary.LittleEndian.PutUint16(b[10:], 11) // record size
	binary.LittleEndian.PutUint16(b[12:], 0)  // depth
	b[14], b[15] = 100, 40                    // split/merge
	binary.LittleEndian.PutUint64(b[16:], rootAddr)
	binary.LittleEndian.PutUint16(b[24:], numRecords)
	binary.LittleEndian.PutUint64(b[26:], uint64(numRecords))
	return b
}

// Site: core.readBTreeV2HeaderRaw#failstop#r.ReadAt(buf, int64(addr))#1
//
// Hand-built header: root node at 0x1234, 10 records (intact answer).
// Cut after 22 bytes (n >= 20 is accepted): RootNodeAddr is still 0x1234 because its high bytes
// are zero anyway, but NumRecordsRoot and TotalRecords come from the zero-filled tail.
// readDenseAttributes then reads "0 records" and reports an empty attribute list.
// (End-to-end demonstration: hdf5.TestFindingC17_BTreeV2HeaderShortReadDropsAllAttributes.)
func TestFindingC17_BTreeV2HeaderRawShortRead(t *testing.T) {
	img := c17BTHD(0x1234, 10)
	want, err := readBTreeV2HeaderRaw(bytes.NewReader(img), 0, c17SB())
	if err != nil || want.NumRecordsRoot != 10 {
		t.Fatalf("intact: %+v err=%v", want, err)
	}
	got, err := readBTreeV2HeaderRaw(bytes.NewReader(img[:22]), 0, c17SB())
	if err != nil {
		return
	}
	if *got != *want {
		t.Errorf("FINDING: B-tree v2 header cut to 22 of 38 bytes parsed with nil error: NumRecordsRoot=%d TotalRecords=%d; intact header gives %d/%d",
			got.NumRecordsRoot, got.TotalRecords, want.NumRecordsRoot, want.TotalRecords)
	}
}

// Site: core.readBTreeV2LeafRecords#failstop#r.ReadAt(buf, int64(addr))#1
//
// Hand-built leaf with 3 records (hash 4 bytes + heap ID 7 bytes each). Intact answer: heap IDs
// {00 10 00 2B 01 00 00}, {00 3B 01 2B 01 00 00}, {00 66 02 2B 01 00 00}.
// Cut in the middle of record 1 (n >= 10 is accepted): record 1 keeps only its first heap-ID
// bytes, record 2 is all zeros, and the function returns them with a nil error.
// (End-to-end demonstration: hdf5.TestFindingC17_BTreeV2LeafShortReadChangesAttributeValue.)
func TestFindingC17_BTreeV2LeafRecordsShortRead(t *testing.T) {
	ids := [][7]byte{
		{0x00, 0x10, 0x00, 0x2B, 0x01, 0x00, 0x00},
		{0x00, 0x3B, 0x01, 0x2B, 0x01, 0x00, 0x00},
		{0x00, 0x66, 0x02, 0x2B, 0x01, 0x00, 0x00},
	}
	img := []byte("BTLF\x00\x08")
	for i, id := range ids {
		img = append(img, byte(i), 0xA0, 0xB0, 0xC0) // name hash
		img = append(img, id[:]...)
	}
	img = append(img, 1, 2, 3, 4) // checksum (never verified)

	want, err := readBTreeV2LeafRecords(bytes.NewReader(img), 0, 3, c17SB())
	if err != nil || want[2] != ids[2] {
		t.Fatalf("intact: %v err=%v", want, err)
	}
	cut := 6 + 11 + 4 + 2 // two bytes into the heap ID of record 1
	got, err := readBTreeV2LeafRecords(bytes.NewReader(img[:cut]), 0, 3, c17SB())
	if err != nil {
		return
	}
	for i := range want {
		if got[i] != want[i] {
			t.Errorf("FINDING: B-tree v2 leaf cut to %d of %d bytes parsed with nil error: heap ID %d = % x; intact leaf gives % x",
				cut, len(img), i, got[i], want[i])
		}
	}
}

// Site: core.readFractalHeapHeaderRaw#failstop#r.ReadAt(buf, int64(addr))#1
//
// Hand-built 144-byte fractal heap header whose root block address (offset 132) is 0x010234.
// Intact answer: RootBlockAddress = 0x010234. Cut after 134 bytes (n >= 20 is accepted): the
// third address byte is lost and the function returns RootBlockAddress = 0x0234 with a nil
// error, i.e. it points the caller at a different block. (Downstream, readHeapObject checks
// only the "FHDB" signature, so any other direct block at 0x0234 -- e.g. the link-name heap of
// a group -- would be used to resolve the attribute heap IDs. Not demonstrated end-to-end.)
func TestFindingC17_FractalHeapHeaderRawShortRead(t *testing.T) {
	img := make([]byte, 144)
	copy(img, "FRHP")
	binary.LittleEndian.PutUint16(img[5:], 7)          // heap ID length
	binary.LittleEndian.PutUint32(img[10:], 4096)      // max managed object size
	binary.LittleEndian.PutUint16(img[110:], 4)        // table width
	binary.LittleEndian.PutUint64(img[112:], 512)      // starting block size
	binary.LittleEndian.PutUint64(img[120:], 65536)    // max direct block size
	binary.LittleEndian.PutUint16(img[128:], 16)       // max heap size (log2)
	binary.LittleEndian.PutUint64(img[132:], 0x010234) // root block address

	want, err := readFractalHeapHeaderRaw(bytes.NewReader(img), 0, c17SB())
	if err != nil || want.RootBlockAddress != 0x010234 {
		t.Fatalf("intact: %+v err=%v", want, err)
	}
	got, err := readFractalHeapHeaderRaw(bytes.NewReader(img[:134]), 0, c17SB())
	if err != nil {
		return
	}
	if *got != *want {
		t.Errorf("FINDING: fractal heap header cut to 134 of 144 bytes parsed with nil error: RootBlockAddress=%#x; intact header gives %#x",
			got.RootBlockAddress, want.RootBlockAddress)
	}
}
