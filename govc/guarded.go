package main

// Lock-ownership ("guarded by") obligations — the data-race half of property C18 that is expressible as a contract:
//
//   //@ guarded T by mu        (in a contract file of T's package)
//
// declares that every field of struct type T that is shared between a background goroutine and foreground code
// is protected by the mutex field T.mu of the same object. The checker derives the shared fields itself:
//
//   * background functions: everything reachable (static callees, closures, module-local interface
//     implementations) from the target of a `go` statement in the scoped packages;
//   * a field (T, f) is a race candidate if it is accessed through a non-fresh base pointer both by a background
//     function and by a function that foreground code can call, and at least one such access is a write;
//   * obligation per candidate field of a type WITHOUT a declaration: "T declares no lock" (fails);
//   * obligation per access site of a candidate field of a declared type: the lock base.mu is held at that
//     instruction (must-lockset dataflow inside the function: Lock/RLock add, Unlock/RUnlock remove, deferred
//     unlocks release at return; a read needs Lock or RLock, a write needs Lock), the base being the same SSA value.
//
// Accesses through freshly allocated objects (constructors), sync/atomic operations and the mutex fields themselves
// are exempt. The analysis is syntactic over go/ssa, like the noglobal/nogo frame obligations.

import (
	"fmt"
	"go/types"
	"sort"
	"strings"

	"golang.org/x/tools/go/ssa"
)

type fieldKey struct {
	typ   string // package-qualified struct type name
	field string
}

type fieldAccess struct {
	fn    *ssa.Function
	fa    *ssa.FieldAddr
	write bool
	key   fieldKey
}

func namedStructOf(t types.Type) (*types.Named, *types.Struct) {
	if pt, ok := t.Underlying().(*types.Pointer); ok {
		t = pt.Elem()
	}
	n, ok := types.Unalias(t).(*types.Named)
	if !ok {
		return nil, nil
	}
	st, ok := n.Underlying().(*types.Struct)
	if !ok {
		return nil, nil
	}
	return n, st
}

func isSyncType(t types.Type) bool {
	if n, ok := types.Unalias(t).(*types.Named); ok && n.Obj().Pkg() != nil {
		p := n.Obj().Pkg().Path()
		return p == "sync" || p == "sync/atomic"
	}
	return false
}

// accessKind: 0 none, 1 read, 2 write — how the address a is used.
func accessKind(a ssa.Value, depth int) int {
	if depth > 6 || a.Referrers() == nil {
		return 0
	}
	k := 0
	up := func(v int) {
		if v > k {
			k = v
		}
	}
	for _, r := range *a.Referrers() {
		switch x := r.(type) {
		case *ssa.Store:
			if x.Addr == a {
				up(2)
			} else {
				up(2) // the address itself is stored: escapes
			}
		case *ssa.UnOp:
			up(1)
		case *ssa.FieldAddr:
			up(accessKind(x, depth+1))
		case *ssa.IndexAddr:
			up(accessKind(x, depth+1))
		case *ssa.DebugRef:
		case ssa.CallInstruction:
			c := x.Common()
			if callee := c.StaticCallee(); callee != nil && callee.Pkg != nil {
				p := callee.Pkg.Pkg.Path()
				if p == "sync" || p == "sync/atomic" {
					continue
				}
			}
			up(2)
		default:
			up(2)
		}
	}
	return k
}

// lockOp: if in is a call of a sync mutex method on &base.field, returns (base, field, op).
func lockOp(c *ssa.CallCommon) (ssa.Value, string, string) {
	callee := c.StaticCallee()
	if callee == nil || callee.Pkg == nil || callee.Pkg.Pkg.Path() != "sync" || len(c.Args) == 0 {
		return nil, "", ""
	}
	op := callee.Name()
	switch op {
	case "Lock", "Unlock", "RLock", "RUnlock":
	default:
		return nil, "", ""
	}
	fa, ok := c.Args[0].(*ssa.FieldAddr)
	if !ok {
		return nil, "", ""
	}
	_, st := namedStructOf(fa.X.Type())
	if st == nil {
		return nil, "", ""
	}
	return fa.X, st.Field(fa.Field).Name(), op
}

type lockset map[string]bool // "<base value name>.<field>/W" or "/R"

func (l lockset) clone() lockset {
	n := lockset{}
	for k := range l {
		n[k] = true
	}
	return n
}

func meet(a, b lockset) lockset {
	n := lockset{}
	for k := range a {
		if b[k] {
			n[k] = true
		}
	}
	return n
}

func lockKey(base ssa.Value, field string) string {
	return fmt.Sprintf("%p.%s", base, field)
}

// locksAt computes the must-lockset before every instruction of fn.
func locksAt(fn *ssa.Function) map[ssa.Instruction]lockset {
	in := map[*ssa.BasicBlock]lockset{}
	out := map[*ssa.BasicBlock]lockset{}
	res := map[ssa.Instruction]lockset{}
	if len(fn.Blocks) == 0 {
		return res
	}
	transfer := func(b *ssa.BasicBlock, s lockset, record bool) lockset {
		cur := s.clone()
		for _, ins := range b.Instrs {
			if record {
				res[ins] = cur.clone()
			}
			if call, ok := ins.(*ssa.Call); ok { // deferred unlocks release at return only
				if base, f, op := lockOp(&call.Call); base != nil {
					k := lockKey(base, f)
					switch op {
					case "Lock":
						cur[k+"/W"] = true
					case "RLock":
						cur[k+"/R"] = true
					case "Unlock":
						delete(cur, k+"/W")
					case "RUnlock":
						delete(cur, k+"/R")
					}
				}
			}
		}
		return cur
	}
	for iter := 0; iter < 50; iter++ {
		changed := false
		for _, b := range fn.Blocks {
			var s lockset
			if b == fn.Blocks[0] {
				s = lockset{}
			} else {
				first := true
				for _, p := range b.Preds {
					o, ok := out[p]
					if !ok {
						continue // not yet computed: optimistic (top)
					}
					if first {
						s = o.clone()
						first = false
					} else {
						s = meet(s, o)
					}
				}
				if first {
					continue // no predecessor computed yet: leave this block at top for now
				}
			}
			in[b] = s
			o := transfer(b, s, false)
			if prev, ok := out[b]; !ok || len(prev) != len(o) || len(meet(prev, o)) != len(o) {
				out[b] = o
				changed = true
			}
		}
		if !changed {
			break
		}
	}
	for _, b := range fn.Blocks {
		if s, ok := in[b]; ok {
			transfer(b, s, true)
		} else {
			transfer(b, lockset{}, true) // unreachable block
		}
	}
	return res
}

func (e *Env) guardedObligations(sc *Scope_) []*FuncResult {
	pkgs := map[string]bool{}
	for _, p := range sc.GuardedPkgs {
		pkgs[p] = true
	}
	var fns []*ssa.Function
	seenFn := map[*ssa.Function]bool{}
	var addFn func(f *ssa.Function)
	addFn = func(f *ssa.Function) {
		if f == nil || seenFn[f] || len(f.Blocks) == 0 {
			return
		}
		seenFn[f] = true
		fns = append(fns, f)
		for _, a := range f.AnonFuncs {
			addFn(a)
		}
	}
	var names []string
	for n := range e.funcs {
		names = append(names, n)
	}
	sort.Strings(names)
	for _, n := range names {
		f := e.funcs[n]
		if f.Pkg != nil && pkgs[f.Pkg.Pkg.Name()] {
			addFn(f)
		}
	}
	// call graph (static callees, closures, module-local interface implementations)
	callees := map[*ssa.Function][]*ssa.Function{}
	callers := map[*ssa.Function][]*ssa.Function{}
	var roots []*ssa.Function
	for _, f := range fns {
		for _, b := range f.Blocks {
			for _, ins := range b.Instrs {
				ci, ok := ins.(ssa.CallInstruction)
				if !ok {
					continue
				}
				c := ci.Common()
				var ts []*ssa.Function
				if callee := c.StaticCallee(); callee != nil {
					ts = append(ts, callee)
				} else if mc, ok := c.Value.(*ssa.MakeClosure); ok {
					if cf, ok := mc.Fn.(*ssa.Function); ok {
						ts = append(ts, cf)
					}
				} else if c.IsInvoke() {
					ts = append(ts, e.implementations(c)...)
				}
				for _, t := range ts {
					if _, isGo := ins.(*ssa.Go); isGo {
						roots = append(roots, t)
						continue
					}
					callees[f] = append(callees[f], t)
					callers[t] = append(callers[t], f)
				}
			}
		}
	}
	bg := map[*ssa.Function]bool{}
	var walk func(f *ssa.Function)
	walk = func(f *ssa.Function) {
		if bg[f] {
			return
		}
		bg[f] = true
		for _, t := range callees[f] {
			walk(t)
		}
		for _, a := range f.AnonFuncs {
			walk(a)
		}
	}
	for _, r := range roots {
		walk(r)
	}
	// a background function is also foreground if something outside the background set calls it
	fg := func(f *ssa.Function) bool {
		if !bg[f] {
			return true
		}
		for _, c := range callers[f] {
			if !bg[c] {
				return true
			}
		}
		return false
	}
	// Functional options and other initialisers: a function whose pointer parameter only ever receives freshly
	// allocated objects (every static call, and every dynamic call through a func value of the same signature,
	// passes a fresh pointer at that position) writes construction-time state through it.
	type dynSite struct {
		sig   *types.Signature
		fresh []bool
	}
	var dyn []dynSite
	staticArgs := map[*ssa.Function][][]bool{}
	var allFns []*ssa.Function
	{
		seen := map[*ssa.Function]bool{}
		var add func(f *ssa.Function)
		add = func(f *ssa.Function) {
			if f == nil || seen[f] || len(f.Blocks) == 0 {
				return
			}
			seen[f] = true
			allFns = append(allFns, f)
			for _, a := range f.AnonFuncs {
				add(a)
			}
		}
		for _, n := range names {
			add(e.funcs[n])
		}
	}
	for _, f := range allFns {
		for _, b := range f.Blocks {
			for _, ins := range b.Instrs {
				ci, ok := ins.(ssa.CallInstruction)
				if !ok {
					continue
				}
				c := ci.Common()
				if c.IsInvoke() {
					continue
				}
				var fr []bool
				for _, a := range c.Args {
					_, isPtr := a.Type().Underlying().(*types.Pointer)
					fr = append(fr, isPtr && isFreshPtr(a, map[ssa.Value]bool{}))
				}
				if callee := c.StaticCallee(); callee != nil {
					staticArgs[callee] = append(staticArgs[callee], fr)
				} else if sig, ok := c.Value.Type().Underlying().(*types.Signature); ok {
					dyn = append(dyn, dynSite{sig, fr})
				}
			}
		}
	}
	initOnlyParam := func(f *ssa.Function, v ssa.Value) bool {
		idx := -1
		for i, p := range f.Params {
			if ssa.Value(p) == v {
				idx = i
			}
		}
		if idx < 0 || len(f.FreeVars) > 0 && false {
			return false
		}
		n := 0
		for _, fr := range staticArgs[f] {
			if idx >= len(fr) || !fr[idx] {
				return false
			}
			n++
		}
		for _, d := range dyn {
			if types.Identical(d.sig, f.Signature) {
				if idx >= len(d.fresh) || !d.fresh[idx] {
					return false
				}
				n++
			}
		}
		return n > 0
	}
	// Writes that dominate a `go` statement of the same function are published to the new goroutine by the go
	// statement itself (happens-before): they count as initialisation of the shared state.
	beforeGo := func(f *ssa.Function, ins ssa.Instruction) bool {
		for _, b := range f.Blocks {
			for i, x := range b.Instrs {
				if _, ok := x.(*ssa.Go); !ok {
					continue
				}
				ib := ins.Block()
				if ib == b {
					for j, y := range b.Instrs {
						if y == ins {
							return j < i
						}
					}
				} else if ib.Dominates(b) {
					return true
				}
			}
		}
		return false
	}
	// Entry locksets of helpers: a method whose every static call site in the module holds the lock of the object
	// passed as receiver runs with that lock held.
	lockCache := map[*ssa.Function]map[ssa.Instruction]lockset{}
	locksOf := func(f *ssa.Function) map[ssa.Instruction]lockset {
		la := lockCache[f]
		if la == nil {
			la = locksAt(f)
			lockCache[f] = la
		}
		return la
	}
	type site struct {
		caller *ssa.Function
		ins    ssa.Instruction
		recv   ssa.Value
	}
	sites := map[*ssa.Function][]site{}
	for _, f := range allFns {
		for _, b := range f.Blocks {
			for _, ins := range b.Instrs {
				ci, ok := ins.(ssa.CallInstruction)
				if !ok {
					continue
				}
				c := ci.Common()
				if callee := c.StaticCallee(); callee != nil && len(c.Args) > 0 && callee.Signature.Recv() != nil {
					sites[callee] = append(sites[callee], site{f, ins, c.Args[0]})
				}
			}
		}
	}
	var entryHeld func(f *ssa.Function, lockField string, depth int) (bool, bool) // (read mode held, write mode held)
	entryHeld = func(f *ssa.Function, lockField string, depth int) (bool, bool) {
		ss := sites[f]
		if len(ss) == 0 || depth > 4 {
			return false, false
		}
		r, w := true, true
		for _, s := range ss {
			if _, isGo := s.ins.(*ssa.Go); isGo {
				return false, false
			}
			if _, isDefer := s.ins.(*ssa.Defer); isDefer {
				return false, false
			}
			held := locksOf(s.caller)[s.ins]
			k := lockKey(s.recv, lockField)
			hw := held[k+"/W"]
			hr := hw || held[k+"/R"]
			if !hr && len(s.caller.Params) > 0 && s.recv == ssa.Value(s.caller.Params[0]) {
				// the caller passes its own receiver on: what it holds at entry counts
				er, ew := entryHeld(s.caller, lockField, depth+1)
				hr, hw = hr || er, hw || ew
			}
			r, w = r && hr, w && hw
		}
		return r, w
	}
	// accesses
	var accs []*fieldAccess
	for _, f := range fns {
		for _, b := range f.Blocks {
			for _, ins := range b.Instrs {
				fa, ok := ins.(*ssa.FieldAddr)
				if !ok {
					continue
				}
				n, st := namedStructOf(fa.X.Type())
				if n == nil || n.Obj().Pkg() == nil || !pkgs[n.Obj().Pkg().Name()] {
					continue
				}
				fld := st.Field(fa.Field)
				if isSyncType(fld.Type()) {
					continue
				}
				if isFreshPtr(fa.X, map[ssa.Value]bool{}) || initOnlyParam(f, fa.X) {
					continue
				}
				k := accessKind(fa, 0)
				if k == 0 {
					continue
				}
				if k == 2 && beforeGo(f, fa) {
					k = 1 // published by the go statement: initialisation, not a racing write
				}
				accs = append(accs, &fieldAccess{fn: f, fa: fa, write: k == 2,
					key: fieldKey{n.Obj().Pkg().Name() + "." + n.Obj().Name(), fld.Name()}})
			}
		}
	}
	type agg struct {
		bgFns, fgFns map[string]bool
		write        bool
	}
	by := map[fieldKey]*agg{}
	for _, a := range accs {
		g := by[a.key]
		if g == nil {
			g = &agg{bgFns: map[string]bool{}, fgFns: map[string]bool{}}
			by[a.key] = g
		}
		if bg[a.fn] {
			g.bgFns[funcName(a.fn)] = true
		}
		if fg(a.fn) {
			g.fgFns[funcName(a.fn)] = true
		}
		if a.write {
			g.write = true
		}
	}
	cand := map[fieldKey]bool{}
	for k, g := range by {
		if len(g.bgFns) > 0 && len(g.fgFns) > 0 && g.write {
			cand[k] = true
		}
	}
	keysOf := func(m map[string]bool) string {
		var s []string
		for k := range m {
			s = append(s, k)
		}
		sort.Strings(s)
		return strings.Join(s, ", ")
	}
	results := map[string]*FuncResult{}
	res := func(name string) *FuncResult {
		r := results[name]
		if r == nil {
			r = &FuncResult{Func: name, Ctx: NewCtx()}
			results[name] = r
		}
		return r
	}
	// the vacuity guard: the analysis saw goroutines and shared fields at all
	{
		r := res("guarded.analysis")
		ob := &Oblig{Name: "guarded.analysis#cover#background goroutines and shared fields found#0", Kind: "cover", Func: "guarded.analysis",
			Text: "background goroutines and shared fields found", Hyp: tTrue, Goal: tTrue, Pre: true, Backend: "syntactic analysis over go/ssa", Status: "discharged"}
		if len(roots) == 0 || len(cand) == 0 {
			ob.Status = "cover-dead"
			ob.Output = fmt.Sprintf("go statements: %d, candidate fields: %d", len(roots), len(cand))
		}
		r.Obs = append(r.Obs, ob)
	}
	var cks []fieldKey
	for k := range cand {
		cks = append(cks, k)
	}
	sort.Slice(cks, func(i, j int) bool {
		if cks[i].typ != cks[j].typ {
			return cks[i].typ < cks[j].typ
		}
		return cks[i].field < cks[j].field
	})
	counter := map[string]int{}
	for _, k := range cks {
		lockField, declared := e.guarded[k.typ]
		g := by[k]
		if !declared {
			r := res(k.typ)
			ob := &Oblig{Name: fmt.Sprintf("%s.%s#guarded#shared with a goroutine: the type declares a lock#0", k.typ, k.field), Kind: "guarded", Func: k.typ,
				Text: "shared with a goroutine: the type declares a lock", Hyp: tTrue, Goal: tTrue, Pre: true, Backend: "syntactic lockset analysis over go/ssa", Status: "failed-unknown"}
			ob.Output = fmt.Sprintf("field %s.%s is written after construction and accessed by background goroutine code (%s) and by foreground code (%s), but %s has no `//@ guarded` declaration (no mutex protects it)",
				k.typ, k.field, keysOf(g.bgFns), keysOf(g.fgFns), k.typ)
			r.Obs = append(r.Obs, ob)
			continue
		}
		for _, a := range accs {
			if a.key != k {
				continue
			}
			held := locksOf(a.fn)[a.fa]
			lk := lockKey(a.fa.X, lockField)
			ok := held[lk+"/W"] || (!a.write && held[lk+"/R"])
			if !ok && len(a.fn.Params) > 0 && a.fa.X == ssa.Value(a.fn.Params[0]) {
				er, ew := entryHeld(a.fn, lockField, 0)
				ok = ew || (!a.write && er)
			}
			fnm := funcName(a.fn)
			mode := "read"
			if a.write {
				mode = "write"
			}
			base := fmt.Sprintf("%s#guarded#%s of %s.%s holds %s", fnm, mode, k.typ, k.field, lockField)
			n := counter[base]
			counter[base] = n + 1
			ob := &Oblig{Name: fmt.Sprintf("%s#%d", base, n), Kind: "guarded", Func: fnm, Text: fmt.Sprintf("%s of %s.%s holds %s", mode, k.typ, k.field, lockField),
				Hyp: tTrue, Goal: tTrue, Pre: true, Backend: "syntactic lockset analysis over go/ssa", Status: "discharged", Pos: e.pos(a.fa.Pos())}
			if !ok {
				ob.Status = "failed-unknown"
				ob.Output = fmt.Sprintf("%s of %s.%s at %s without holding %s of the same object (background: %v)", mode, k.typ, k.field, e.pos(a.fa.Pos()), lockField, bg[a.fn])
			}
			res(fnm).Obs = append(res(fnm).Obs, ob)
		}
	}
	var out []*FuncResult
	var rn []string
	for n := range results {
		rn = append(rn, n)
	}
	sort.Strings(rn)
	for _, n := range rn {
		out = append(out, results[n])
	}
	return out
}
