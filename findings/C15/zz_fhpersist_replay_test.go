package structures

// Demonstrations for the findings of the fractal heap load-side contracts (zz_contracts_fhpersist_verif.go).
// Every test passes while the defect it shows is present and logs "REPRODUCED: ...".

import (
	"bytes"
	"encoding/binary"
	"fmt"
	"testing"

	"github.com/scigolib/hdf5/internal/core"
)

// fhpImage is a sparse in-memory file: Writer and (through bytes.Reader) io.ReaderAt.
type fhpImage struct{ buf []byte }

func (w *fhpImage) WriteAtAddress(data []byte, addr uint64) error {
	end := int(addr) + len(data)
	if end > len(w.buf) {
		w.buf = append(w.buf, make([]byte, end-len(w.buf))...)
	}
	copy(w.buf[addr:], data)
	return nil
}

// fhpBump hands out consecutive, non-overlapping extents starting at 64.
type fhpBump struct{ next uint64 }

func (a *fhpBump) Allocate(size uint64) (uint64, error) {
	if a.next == 0 {
		a.next = 64
	}
	addr := a.next
	a.next += size
	return addr, nil
}

var fhpSB = &core.Superblock{OffsetSize: 8, LengthSize: 8, Endianness: binary.LittleEndian}

// header field offsets for LengthSize = OffsetSize = 8
const (
	fhpOffFreeSpace   = 30
	fhpOffIterOffset  = 62
	fhpOffStartBlock  = 112
	fhpOffMaxHeapSize = 128
)

// fhpWrite builds a heap with one object and writes it out; returns the image, the header address and the object.
func fhpWrite(t *testing.T, blockSize uint64, obj []byte) (*fhpImage, uint64, *WritableFractalHeap, []byte) {
	t.Helper()
	fh := NewWritableFractalHeap(blockSize)
	id, err := fh.InsertObject(obj)
	if err != nil {
		t.Fatalf("insert: %v", err)
	}
	img := &fhpImage{}
	hdr, err := fh.WriteToFile(img, &fhpBump{}, fhpSB)
	if err != nil {
		t.Fatalf("write: %v", err)
	}
	return img, hdr, fh, id
}

func fhpLoad(img *fhpImage, hdr uint64) (fh *WritableFractalHeap, err error, panicked interface{}) {
	defer func() { panicked = recover() }()
	fh = NewWritableFractalHeap(64 * 1024)
	err = fh.LoadFromFile(bytes.NewReader(img.buf), hdr, fhpSB)
	return
}

// Positive control: what lemma fhWriteThenLoad proves (object below Size - prefix - checksum).
func TestFHPersistRoundTripControl(t *testing.T) {
	obj := []byte("hello fractal heap")
	img, hdr, fh, id := fhpWrite(t, 64, obj)
	fh2, err, p := fhpLoad(img, hdr)
	if err != nil || p != nil {
		t.Fatalf("load: err=%v panic=%v", err, p)
	}
	if fh2.DirectBlock.FreeOffset != fh.DirectBlock.FreeOffset || fh2.Header.NumManagedObjects != fh.Header.NumManagedObjects ||
		fh2.Header.FreeSpace != fh.Header.FreeSpace || fh2.DirectBlock.Size != fh.DirectBlock.Size {
		t.Fatalf("counters differ after reload")
	}
	if !bytes.Equal(fh2.DirectBlock.Objects[:fh.DirectBlock.FreeOffset], fh.DirectBlock.Objects[:fh.DirectBlock.FreeOffset]) {
		t.Fatalf("stored bytes differ after reload")
	}
	got, err := fh2.GetObject(id)
	if err != nil || !bytes.Equal(got, obj) {
		t.Fatalf("object not retrievable after reload: %v %q", err, got)
	}
	if len(fh2.DirectBlock.Objects) != 64-9-8-2 {
		t.Fatalf("len(Objects) after reload = %d, want %d", len(fh2.DirectBlock.Objects), 64-9-8-2)
	}
	t.Logf("control: round trip of a %d-byte object in a 64-byte block keeps counters and bytes", len(obj))
}

// readDirectBlockFromFile#slice/idx/neglen/alloc-cap: the block size comes from the header (StartingBlockSize) and is
// not validated against the block prefix; LoadFromFile panics on a file whose header says 4, 0 or 2^63.
func TestFHPersistBlockSizeNotValidated(t *testing.T) {
	for _, bs := range []uint64{4, 0, 12, 1 << 63} {
		img, hdr, _, _ := fhpWrite(t, 64, []byte("abc"))
		binary.LittleEndian.PutUint64(img.buf[int(hdr)+fhpOffStartBlock:], bs)
		_, err, p := fhpLoad(img, hdr)
		if p == nil {
			t.Errorf("starting block size %d: no panic (err=%v) - defect no longer present?", bs, err)
			continue
		}
		t.Logf("REPRODUCED: LoadFromFile panics on a header with starting block size %d: %v", bs, p)
	}
}

// parseFractalHeapHeader#overflow#maxIndexBits + 7: uint16 addition wraps for MaxHeapSize > 65528; the loader then
// works with heap offset size 0.
func TestFHPersistMaxHeapSizeWrap(t *testing.T) {
	img, hdr, _, _ := fhpWrite(t, 64, []byte("abc"))
	binary.LittleEndian.PutUint16(img.buf[int(hdr)+fhpOffMaxHeapSize:], 65535)
	fh2, err, p := fhpLoad(img, hdr)
	if err != nil || p != nil {
		t.Fatalf("load: err=%v panic=%v", err, p)
	}
	if fh2.Header.HeapOffsetSize != 0 {
		t.Fatalf("HeapOffsetSize = %d, expected the wrapped value 0", fh2.Header.HeapOffsetSize)
	}
	t.Logf("REPRODUCED: header with max heap size 65535 bits loads with HeapOffsetSize %d ((65535+7) wraps in uint16); payload is then read from offset %d instead of %d",
		fh2.Header.HeapOffsetSize, 5+8+0, 5+8+2)
}

// fhLoadGivesWF: iterator offset, free space (and the other counters) are copied without validation; the loader does
// not compare the header or block checksum either, so the damaged file below is accepted.
func TestFHPersistLoadAcceptsInconsistentCounters(t *testing.T) {
	img, hdr, _, _ := fhpWrite(t, 64, []byte("abc"))
	binary.LittleEndian.PutUint64(img.buf[int(hdr)+fhpOffIterOffset:], 60)
	binary.LittleEndian.PutUint64(img.buf[int(hdr)+fhpOffFreeSpace:], 1000)
	fh2, err, p := fhpLoad(img, hdr)
	if err != nil || p != nil {
		t.Fatalf("load: err=%v panic=%v", err, p)
	}
	msgs := []string{}
	if fh2.DirectBlock.FreeOffset > uint64(len(fh2.DirectBlock.Objects)) {
		msgs = append(msgs, fmt.Sprintf("FreeOffset %d > len(Objects) %d", fh2.DirectBlock.FreeOffset, len(fh2.DirectBlock.Objects)))
	}
	if fh2.Header.FreeSpace > fh2.DirectBlock.Size {
		msgs = append(msgs, fmt.Sprintf("FreeSpace %d > block size %d", fh2.Header.FreeSpace, fh2.DirectBlock.Size))
	}
	if len(msgs) != 2 {
		t.Fatalf("loaded heap unexpectedly consistent: %v", msgs)
	}
	t.Logf("REPRODUCED: LoadFromFile accepts a header whose checksum no longer matches and yields a heap violating its invariant: %v", msgs)
}

// fhLoadGivesWF, last conjunct: also for an UNDAMAGED file the reloaded heap has a different HeapLengthSize than the
// heap that was written (recomputed as min(bytes(MaxDirectBlockSize), bytes(MaxManagedObjectSize))).
func TestFHPersistHeapLengthSizeChangesOnReload(t *testing.T) {
	img, hdr, fh, id := fhpWrite(t, 4096, []byte("abc"))
	fh2, err, p := fhpLoad(img, hdr)
	if err != nil || p != nil {
		t.Fatalf("load: err=%v panic=%v", err, p)
	}
	if fh2.Header.HeapLengthSize == fh.Header.HeapLengthSize {
		t.Fatalf("HeapLengthSize unchanged (%d)", fh.Header.HeapLengthSize)
	}
	got, err := fh2.GetObject(id)
	t.Logf("REPRODUCED: HeapLengthSize %d before write-out, %d after reload of the same 4096-byte-block heap (MaxManagedObjectSize %d no longer below 256^%d); old id still decodes: %q err=%v",
		fh.Header.HeapLengthSize, fh2.Header.HeapLengthSize, fh2.Header.MaxManagedObjectSize, fh2.Header.HeapLengthSize, got, err)
}
