package hdf5

import (
	"encoding/binary"
	"os"
	"path/filepath"
	"testing"

	"github.com/scigolib/hdf5/internal/core"
)

// Property C05: every structure reachable from the superblock lies below the end-of-file address recorded in the
// superblock and no two structures overlap. A freshly created superblock-v0 file violates both:
//   - createRootGroupStructureV0 reserves 56 bytes for the root B-tree node but BTreeNodeV1.WriteAt writes a full node of
//     rank K = 16 (24 + 33*8 + 32*8 = 544 bytes), the size the superblock's "group internal node K" announces; the symbol
//     table node is then written 56 bytes after the B-tree node, inside it;
//   - the end-of-file address is computed as heapAddr + 256, but the local heap is 32 bytes of header plus a 256-byte data
//     segment, so the data segment ends 32 bytes beyond the recorded end of file.
func TestFindingC05_V0RootGroupExtents(t *testing.T) {
	path := filepath.Join(t.TempDir(), "v0.h5")
	fw, err := CreateForWrite(path, CreateTruncate, WithSuperblockVersion(core.Version0))
	if err != nil {
		t.Fatal(err)
	}
	if err := fw.Close(); err != nil {
		t.Fatal(err)
	}
	b, err := os.ReadFile(path)
	if err != nil {
		t.Fatal(err)
	}
	le := binary.LittleEndian
	if b[8] != 0 {
		t.Fatalf("not a v0 superblock: version %d", b[8])
	}
	internalK := int(le.Uint16(b[18:]))
	eof := le.Uint64(b[40:])
	btreeAddr := le.Uint64(b[56+24:])
	heapAddr := le.Uint64(b[56+32:])
	if string(b[btreeAddr:btreeAddr+4]) != "TREE" || string(b[heapAddr:heapAddr+4]) != "HEAP" {
		t.Fatalf("unexpected layout: btree %d heap %d", btreeAddr, heapAddr)
	}
	nodeSize := uint64(24 + (2*internalK+1)*8 + 2*internalK*8)
	snodAddr := le.Uint64(b[btreeAddr+24+8:]) // child pointer 0
	if string(b[snodAddr:snodAddr+4]) != "SNOD" {
		t.Fatalf("child 0 of the root B-tree node is not a symbol table node: %d", snodAddr)
	}
	t.Logf("K=%d: B-tree node [%d,%d), symbol table node at %d, heap at %d, eof %d, file size %d",
		internalK, btreeAddr, btreeAddr+nodeSize, snodAddr, heapAddr, eof, len(b))
	if snodAddr < btreeAddr+nodeSize {
		t.Errorf("symbol table node at %d lies inside the B-tree node [%d,%d)", snodAddr, btreeAddr, btreeAddr+nodeSize)
	}
	segSize := le.Uint64(b[heapAddr+8:])
	segAddr := le.Uint64(b[heapAddr+24:])
	if segAddr+segSize > eof {
		t.Errorf("local heap data segment [%d,%d) extends beyond the superblock's end-of-file address %d", segAddr, segAddr+segSize, eof)
	}
}

// The v0 root group structures are written at fixed addresses 96.. without telling the allocator, which still starts at
// 96: the next object created in the file is allocated over the root group.
func TestFindingC05_V0AllocatorOverlapsRootGroup(t *testing.T) {
	path := filepath.Join(t.TempDir(), "v0b.h5")
	fw, err := CreateForWrite(path, CreateTruncate, WithSuperblockVersion(core.Version0))
	if err != nil {
		t.Fatal(err)
	}
	heapAddr := fw.rootHeapAddr
	end := heapAddr + 32 + 256
	next := fw.writer.EndOfFile()
	_ = fw.Close()
	if next < end {
		t.Errorf("allocator's next free address %d lies below the end %d of the root group structures written at 96..", next, end)
	}
}

// Consequence: creating a dataset in a fresh v0 file writes its data over the root group's object header at 96.
func TestFindingC05_V0DatasetOverwritesRootGroup(t *testing.T) {
	path := filepath.Join(t.TempDir(), "v0c.h5")
	fw, err := CreateForWrite(path, CreateTruncate, WithSuperblockVersion(core.Version0))
	if err != nil {
		t.Fatal(err)
	}
	before := make([]byte, 40)
	if _, err := fw.writer.ReadAt(before, 96); err != nil {
		t.Fatal(err)
	}
	ds, err := fw.CreateDataset("/d", Int32, []uint64{4})
	if err != nil {
		t.Fatal(err)
	}
	if err := ds.Write([]int32{0x11111111, 0x22222222, 0x33333333, 0x44444444}); err != nil {
		t.Fatal(err)
	}
	after := make([]byte, 40)
	if _, err := fw.writer.ReadAt(after, 96); err != nil {
		t.Fatal(err)
	}
	_ = fw.Close()
	if string(before) != string(after) {
		t.Errorf("root group object header at 96 changed by creating a dataset:\n before % x\n after  % x", before, after)
	}
}
