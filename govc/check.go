package main

import (
	"go/token"
	"crypto/sha256"
	"encoding/json"
	"flag"
	"fmt"
	"os"
	"path/filepath"
	"regexp"
	"sort"
	"strconv"
	"strings"
	"time"

	"golang.org/x/tools/go/ssa"
)

type Scope_ struct {
	Property    string   `json:"property"`
	Description string   `json:"description"`
	Functions   []string `json:"functions"`    // exact qualified names
	Patterns    []string `json:"patterns"`     // regexps on qualified names
	ReachFrom   []string `json:"reach_from"`   // roots: every module function reachable from these is in scope
	ReachPkgs   []string `json:"reach_pkgs"`   // restrict reachable set to these package names
	Exclude     []string `json:"exclude"`      // regexps removed from the scope
	Kinds       []string `json:"kinds"`        // obligation kinds claimed (empty = all generated)
	ExtraKinds  []string `json:"extra_kinds"`  // additional kinds to generate (e.g. nil)
	Lemmas      []string `json:"lemmas"`       // lemma names (regexps)
	ThoroughFunctions []string `json:"thorough_functions"` // functions verified in the thorough tier only (slow end-to-end posts)
	ThoroughLemmas []string `json:"thorough_lemmas"` // lemmas verified in the thorough tier only (expensive end-to-end compositions)
	MustHaveContract []string `json:"must_have_contract"` // functions that must carry a contract with at least one ensures
	QuickTimeout    [2]int `json:"quick_timeout"`
	ThoroughTimeout [2]int `json:"thorough_timeout"`
	StaticOnly  bool     `json:"static_only"`  // generate only the static obligations
	Static      []string `json:"static"`       // syntactic frame obligations over the scope: "noglobal", "nogo"
	GuardedPkgs []string `json:"guarded_pkgs"` // packages whose goroutine-shared struct fields get lock-ownership obligations (kind guarded)
	GlobalsAllowed []string `json:"globals_allowed"` // package-level variables that may be written (regexps), with the reason in the description
	NotDecided  []string `json:"not_decided"` // parts of the property not decided by this check (documentation, copied to evidence)
}

type Finding struct {
	Property   string `json:"property"`
	Obligation string `json:"obligation"`
	What       string `json:"what"`
	Replay     string `json:"replay,omitempty"`
}
type Fixed struct {
	Property string `json:"property"`
	Commit   string `json:"commit"`
	What     string `json:"what"`
}
type KnownFindings struct {
	Findings []Finding `json:"findings"`
	Fixed    []Fixed   `json:"fixed"`
}
type Unclaimed struct {
	// obligation name -> reason (tool limit). Names may end with '*' as a prefix wildcard on the repetition counter only.
	Obligations map[string]string `json:"obligations"`
}

func readJSON(path string, v interface{}) error {
	b, err := os.ReadFile(path)
	if err != nil {
		return err
	}
	return json.Unmarshal(b, v)
}

func (e *Env) scopeFuncs(sc *Scope_) ([]*ssa.Function, []string) {
	set := map[string]*ssa.Function{}
	var missing []string
	for _, n := range sc.Functions {
		if f, ok := e.funcs[n]; ok {
			set[n] = f
		} else {
			missing = append(missing, n)
		}
	}
	for _, p := range sc.Patterns {
		re := regexp.MustCompile(p)
		for n, f := range e.funcs {
			if re.MatchString(n) {
				set[n] = f
			}
		}
	}
	if len(sc.ReachFrom) > 0 {
		pk := map[string]bool{}
		for _, p := range sc.ReachPkgs {
			pk[p] = true
		}
		seen := map[*ssa.Function]bool{}
		var stack []*ssa.Function
		for _, r := range sc.ReachFrom {
			if f, ok := e.funcs[r]; ok {
				stack = append(stack, f)
			} else {
				missing = append(missing, r)
			}
		}
		for len(stack) > 0 {
			f := stack[len(stack)-1]
			stack = stack[:len(stack)-1]
			if seen[f] || len(f.Blocks) == 0 || !e.inModule(f) {
				continue
			}
			seen[f] = true
			name := funcName(f)
			if len(pk) == 0 || pk[strings.SplitN(name, ".", 2)[0]] {
				if _, ok := e.funcs[name]; ok {
					set[name] = f
				}
			}
			for _, b := range f.Blocks {
				for _, in := range b.Instrs {
					var cc *ssa.CallCommon
					switch x := in.(type) {
					case *ssa.Call:
						cc = &x.Call
					case *ssa.Defer:
						cc = &x.Call
					case *ssa.Go:
						cc = &x.Call
					case *ssa.MakeClosure:
						if g, ok := x.Fn.(*ssa.Function); ok {
							stack = append(stack, g)
						}
					}
					if cc == nil {
						continue
					}
					if cc.IsInvoke() {
						stack = append(stack, e.implementations(cc)...)
					} else if g := cc.StaticCallee(); g != nil {
						stack = append(stack, g)
					}
					for _, a := range cc.Args {
						if g, ok := a.(*ssa.Function); ok {
							stack = append(stack, g)
						}
					}
				}
			}
		}
	}
	for _, p := range sc.Exclude {
		re := regexp.MustCompile(p)
		for n := range set {
			if re.MatchString(n) {
				delete(set, n)
			}
		}
	}
	var names []string
	for n := range set {
		names = append(names, n)
	}
	sort.Strings(names)
	var out []*ssa.Function
	for _, n := range names {
		out = append(out, set[n])
	}
	return out, missing
}

func matchUnclaimed(u *Unclaimed, name string) (string, bool) {
	if r, ok := u.Obligations[name]; ok {
		return r, true
	}
	// wildcard on the trailing repetition counter: "base#*"
	if i := strings.LastIndex(name, "#"); i >= 0 {
		if r, ok := u.Obligations[name[:i]+"#*"]; ok {
			return r, true
		}
	}
	return "", false
}

func cmdCheck(args []string) {
	fs := flag.NewFlagSet("check", flag.ExitOnError)
	repo := fs.String("repo", "/repo", "repository")
	verif := fs.String("verif", "/verif", "verification directory")
	prop := fs.String("property", "", "property id")
	tier := fs.String("tier", "", "quick|thorough")
	baseline := fs.Bool("baseline", false, "print failing obligations as unclaimed.json entries instead of judging")
	fs.Parse(args)
	if *tier == "" {
		*tier = os.Getenv("VERIF_TIER")
	}
	if *tier == "" {
		*tier = "quick"
	}
	seed, _ := strconv.Atoi(os.Getenv("VERIF_SEED"))
	t0 := time.Now()
	var sc Scope_
	if err := readJSON(filepath.Join(*verif, "scopes", *prop+".json"), &sc); err != nil {
		fmt.Fprintln(os.Stderr, "scope:", err)
		os.Exit(3)
	}
	var kf KnownFindings
	readJSON(filepath.Join(*verif, "known_findings.json"), &kf)
	uc := Unclaimed{Obligations: map[string]string{}}
	readJSON(filepath.Join(*verif, "unclaimed.json"), &uc)

	e := mustEnv(*repo)
	if *tier == "thorough" {
		sc.Functions = append(append([]string{}, sc.Functions...), sc.ThoroughFunctions...)
	} else if len(sc.ThoroughFunctions) > 0 {
		skip := map[string]bool{}
		for _, f := range sc.ThoroughFunctions {
			skip[f] = true
		}
		var mh []string
		for _, f := range sc.MustHaveContract {
			if !skip[f] {
				mh = append(mh, f)
			}
		}
		sc.MustHaveContract = mh
	}
	fns, missing := e.scopeFuncs(&sc)
	tmo := sc.QuickTimeout
	if *tier == "thorough" {
		tmo = sc.ThoroughTimeout
	}
	if tmo[0] == 0 {
		tmo = [2]int{3, 10}
		if *tier == "thorough" {
			tmo = [2]int{10, 60}
		}
	}
	cfg := solveCfg{quickS: tmo[0], fullS: tmo[1], workers: 16}

	var lems []*Lemma
	lemPats := sc.Lemmas
	if *tier == "thorough" {
		lemPats = append(append([]string{}, lemPats...), sc.ThoroughLemmas...)
	}
	for _, lp := range lemPats {
		re := regexp.MustCompile(lp)
		for _, lm := range e.lemmas {
			if re.MatchString(lm.Name) {
				lems = append(lems, lm)
			}
		}
	}
	var results []*FuncResult
	if !sc.StaticOnly {
		results = e.generateAll(fns, lems, sc.ExtraKinds)
	}
	if len(sc.Static) > 0 {
		results = append(results, e.staticObligations(&sc, fns)...)
	}
	if len(sc.GuardedPkgs) > 0 {
		results = append(results, e.guardedObligations(&sc)...)
	}
	// kind filter
	if len(sc.Kinds) > 0 {
		keep := map[string]bool{"cover": true}
		for _, k := range sc.Kinds {
			keep[k] = true
		}
		for _, r := range results {
			var obs []*Oblig
			for _, ob := range r.Obs {
				if keep[ob.Kind] {
					obs = append(obs, ob)
				}
			}
			r.Obs = obs
		}
	}
	knownNames := map[string]bool{}
	for _, f := range kf.Findings {
		if f.Property == *prop {
			knownNames[f.Obligation] = true
		}
	}
	solveAll(results, cfg)
	// obligations that ran out of time get one more attempt with a longer budget and little contention
	// (a timeout is not evidence of a violation; this keeps the check quiet on correct code under load)
	if !*baseline {
		var retry []*FuncResult
		for _, r := range results {
			var obs []*Oblig
			for _, ob := range r.Obs {
				if ob.Status == "failed-unknown" {
					if _, isUn := matchUnclaimed(&uc, ob.Name); isUn {
						continue
					}
					if _, isKnown := knownNames[ob.Name]; isKnown {
						continue
					}
					obs = append(obs, ob)
				}
			}
			if len(obs) > 0 {
				rr := *r
				rr.Obs = obs
				retry = append(retry, &rr)
			}
		}
		if len(retry) > 0 {
			solveAll(retry, solveCfg{quickS: cfg.fullS, fullS: cfg.fullS * 4, workers: 4})
		}
	}

	known := map[string]Finding{}
	for _, f := range kf.Findings {
		if f.Property == *prop {
			known[f.Obligation] = f
		}
	}
	type viol struct {
		ob     *Oblig
		reason string
	}
	var viols []viol
	var engineViol []string
	claimed, discharged := 0, 0
	byBackend := map[string]int{}
	solverTime := 0.0
	var unclaimedHit, knownHit, partial []string
	var samples []map[string]interface{}
	funcsWithContract := []string{}
	autoInv := 0
	for _, m := range missing {
		engineViol = append(engineViol, "scoped function missing from the tree: "+m)
	}
	for _, n := range sc.MustHaveContract {
		c := e.contracts[n]
		if c == nil {
			engineViol = append(engineViol, "function lost its contract: "+n)
		}
	}
	knownSeen := map[string]bool{}
	for _, r := range results {
		if r.Fatal != "" {
			engineViol = append(engineViol, fmt.Sprintf("%s: cannot generate obligations: %s", r.Func, r.Fatal))
			continue
		}
		if r.HasContract {
			funcsWithContract = append(funcsWithContract, r.Func)
		}
		autoInv += r.AutoInv
		for _, p := range r.Partial {
			partial = append(partial, r.Func+": "+p)
		}
		for _, ob := range r.Obs {
			solverTime += ob.Time
			ok := ob.Status == "discharged" || ob.Status == "cover-ok" || ob.Status == "cover-unknown"
			if *baseline {
				if !ok {
					fmt.Printf("  %q: %q,\n", ob.Name, ob.Status+" "+ob.Pos)
				} else if ob.Time > 0.6*float64(cfg.fullS) {
					fmt.Printf("  %q: %q,\n", ob.Name, fmt.Sprintf("slow (%.1fs of %ds) %s", ob.Time, cfg.fullS, ob.Pos))
				}
				continue
			}
			if f, isKnown := known[ob.Name]; isKnown {
				knownSeen[ob.Name] = true
				if !ok {
					fmt.Printf("KNOWN-FINDING: property=%s %s — %s\n", *prop, ob.Name, f.What)
					knownHit = append(knownHit, ob.Name)
				} else {
					fmt.Printf("note: known finding no longer fails: %s\n", ob.Name)
				}
				continue
			}
			if reason, isUn := matchUnclaimed(&uc, ob.Name); isUn {
				if !ok {
					unclaimedHit = append(unclaimedHit, ob.Name+" — "+reason)
					continue
				}
				// an unclaimed obligation that now discharges is simply counted
			}
			claimed++
			if ok {
				discharged++
				byBackend[ob.Backend]++
				if len(samples) < 6 && (ob.Kind == "post" || ob.Kind == "lemma" || len(samples) < 3) {
					h := sha256.Sum256([]byte(ob.Script))
					samples = append(samples, map[string]interface{}{"obligation": ob.Name, "kind": ob.Kind, "pos": ob.Pos, "backend": ob.Backend,
						"script_sha256": fmt.Sprintf("%x", h[:8]), "script_bytes": len(ob.Script), "seconds": ob.Time})
				}
				continue
			}
			reason := "obligation not discharged (" + ob.Status + ")"
			if ob.Status == "cover-dead" {
				reason = "precondition is unsatisfiable (vacuous contract)"
			}
			viols = append(viols, viol{ob, reason})
		}
	}
	if *baseline {
		return
	}
	// replays
	replayDir := filepath.Join(*verif, "replays", *prop)
	os.MkdirAll(replayDir, 0o755)
	nviol := 0
	for _, v := range viols {
		nviol++
		rp := filepath.Join(replayDir, sanitize(v.ob.Name)+".json")
		rep := e.replay(v.ob, results)
		out := map[string]interface{}{"property": *prop, "obligation": v.ob.Name, "kind": v.ob.Kind, "function": v.ob.Func, "position": v.ob.Pos,
			"reason": v.reason, "status": v.ob.Status, "backend": v.ob.Backend, "model": v.ob.Model, "verifier_output": firstLines(v.ob.Output, 40),
			"replay": rep}
		b, _ := json.MarshalIndent(out, "", " ")
		os.WriteFile(rp, b, 0o644)
		os.WriteFile(strings.TrimSuffix(rp, ".json")+".smt2", []byte(v.ob.Script), 0o644)
		suffix := ""
		if rep == nil || !rep.Reproduced {
			suffix = " no-failing-input-found"
		}
		fmt.Printf("VIOLATION property=%s replay=%s obligation=%s%s\n", *prop, rp, v.ob.Name, suffix)
	}
	for i, m := range engineViol {
		nviol++
		rp := filepath.Join(replayDir, fmt.Sprintf("engine_%d.json", i))
		b, _ := json.MarshalIndent(map[string]interface{}{"property": *prop, "obligation": "engine", "reason": m}, "", " ")
		os.WriteFile(rp, b, 0o644)
		fmt.Printf("VIOLATION property=%s replay=%s %s no-failing-input-found\n", *prop, rp, m)
	}
	if claimed == 0 {
		nviol++
		fmt.Printf("VIOLATION property=%s replay=%s zero obligations generated (vacuous check) no-failing-input-found\n", *prop, replayDir)
	}
	// evidence
	var trusted []string
	trusted = append(trusted, "govc VC generator (/verif/govc): SSA->SMT translation, memory model, loop cutting, contract evaluator",
		"go/types + go/ssa (x/tools v0.50.0) as semantics-preserving front end",
		"SMT solvers z3 5.1.0 (z3-new), z3 4.8.12, cvc5 1.0.3",
		"Go slices/strings: len,cap,offset <= 2^40; references of inputs < 2^40 (fresh allocations above)")
	for t := range e.trusted {
		if strings.HasPrefix(t, "interface contract assumed") {
			trusted = append(trusted, "assumed contract: "+t)
		} else {
			trusted = append(trusted, "stdlib contract: "+t)
		}
	}
	sort.Strings(trusted[4:])
	var fnNames []string
	for _, f := range fns {
		fnNames = append(fnNames, funcName(f))
	}
	sort.Strings(funcsWithContract)
	sort.Strings(unclaimedHit)
	sort.Strings(partial)
	expl := fmt.Sprintf("%s. %d functions of /repo translated from go/ssa on this run (%d carry //@ contracts); %d obligations claimed, %d discharged; %d auto-inferred loop invariants proved inductive (Houdini); %d obligations not claimed (tool limits, listed under unclaimed), %d known findings.",
		sc.Description, len(fns), len(funcsWithContract), claimed, discharged, autoInv, len(unclaimedHit), len(knownHit))
	ev := map[string]interface{}{
		"property_id": *prop, "tier": *tier, "seed": seed, "level": "proof",
		"coverage": map[string]interface{}{
			"obligations": claimed, "discharged": discharged,
			"checker_cmd":  fmt.Sprintf("bin/govc check --property %s --tier %s", *prop, *tier),
			"trusted_base": trusted, "samples": samples, "explanation": expl,
			"functions_in_scope": fnNames, "functions_under_contract": funcsWithContract,
			"by_backend": byBackend, "solver_time_s": solverTime,
			"auto_loop_invariants_proved": autoInv,
			"unclaimed_not_proved": unclaimedHit, "known_findings": knownHit,
			"partially_modelled": partial, "assume_scan": e.assumeScanResult(),
			"not_decided_by_this_check": sc.NotDecided,
			"timeouts_s": tmo,
		},
		"assumptions": trusted,
		"wall_s":      time.Since(t0).Seconds(),
		"violations":  nviol,
	}
	os.MkdirAll(filepath.Join(*verif, "evidence"), 0o755)
	b, _ := json.MarshalIndent(ev, "", " ")
	os.WriteFile(filepath.Join(*verif, "evidence", *prop+".json"), b, 0o644)
	fmt.Printf("%s %s: functions=%d claimed=%d discharged=%d unclaimed=%d known=%d violations=%d wall=%.1fs\n",
		*prop, *tier, len(fns), claimed, discharged, len(unclaimedHit), len(knownHit), nviol, time.Since(t0).Seconds())
	if nviol > 0 {
		os.Exit(1)
	}
}

func (e *Env) assumeScanResult() string {
	if len(e.assumeScan) == 0 {
		return fmt.Sprintf("scanned %d contract files: no assume/trusted/admit clauses", len(e.contractFiles))
	}
	return strings.Join(e.assumeScan, "; ")
}

// staticObligations: frame obligations decided syntactically over go/ssa (no solver): a function of the scope contains
// no store to a package-level variable / no go statement. Because the scope is the whole set of functions reachable
// from the API roots, discharging them for every function covers every path.
func (e *Env) staticObligations(sc *Scope_, fns []*ssa.Function) []*FuncResult {
	var allowed []*regexp.Regexp
	for _, p := range sc.GlobalsAllowed {
		allowed = append(allowed, regexp.MustCompile(p))
	}
	want := map[string]bool{}
	for _, k := range sc.Static {
		want[k] = true
	}
	var out []*FuncResult
	for _, fn := range fns {
		r := &FuncResult{Func: funcName(fn), Ctx: NewCtx()}
		globals := map[string]string{}
		goes := []string{}
		for _, b := range fn.Blocks {
			for _, in := range b.Instrs {
				switch x := in.(type) {
				case *ssa.Store:
					root, _ := chainRoot(x.Addr)
					if strings.HasPrefix(root, "G:") {
						globals[root[2:]] = e.pos(x.Pos())
					}
				case *ssa.MapUpdate:
					if u, ok := x.Map.(*ssa.UnOp); ok {
						if g, ok := u.X.(*ssa.Global); ok {
							globals[g.Pkg.Pkg.Name()+"."+g.Name()+" (map entry)"] = e.pos(x.Pos())
						}
					}
				case *ssa.Go:
					goes = append(goes, e.pos(x.Pos()))
				}
			}
		}
		isInit := fn.Name() == "init" || strings.HasPrefix(fn.Name(), "init#")
		if want["noglobal"] {
			ob := &Oblig{Name: funcName(fn) + "#noglobal#writes no package-level variable#0", Kind: "noglobal", Func: funcName(fn), Text: "writes no package-level variable",
				Hyp: tTrue, Goal: tTrue, Pre: true, Backend: "syntactic frame analysis over go/ssa", Status: "discharged"}
			var bad []string
			for g, pos := range globals {
				ok := isInit
				for _, re := range allowed {
					if re.MatchString(g) {
						ok = true
					}
				}
				if !ok {
					bad = append(bad, g+" at "+pos)
				}
			}
			if len(bad) > 0 {
				sort.Strings(bad)
				ob.Status = "failed-unknown"
				ob.Output = "stores to package-level variables: " + strings.Join(bad, "; ")
			}
			r.Obs = append(r.Obs, ob)
		}
		if want["poolown"] {
			// ownership of pooled buffers: after utils.ReleaseBuffer(b) (not deferred) the function must not touch b
			// or a slice derived from it — another handle may already own the buffer (the pool is the one piece of
			// state that independent handles share)
			ob := &Oblig{Name: funcName(fn) + "#poolown#no use of a pooled buffer after its release#0", Kind: "poolown", Func: funcName(fn), Text: "no use of a pooled buffer after its release",
				Hyp: tTrue, Goal: tTrue, Pre: true, Backend: "syntactic ownership analysis over go/ssa", Status: "discharged"}
			var bads []string
			for _, p := range usesAfterReleasePos(fn) {
				bads = append(bads, e.pos(p))
			}
			if len(bads) > 0 {
				ob.Status = "failed-unknown"
				ob.Output = "buffer used after ReleaseBuffer at " + strings.Join(bads, ", ")
			}
			r.Obs = append(r.Obs, ob)
		}
		if want["nogo"] {
			ob := &Oblig{Name: funcName(fn) + "#nogo#starts no goroutine#0", Kind: "nogo", Func: funcName(fn), Text: "starts no goroutine",
				Hyp: tTrue, Goal: tTrue, Pre: true, Backend: "syntactic analysis over go/ssa", Status: "discharged"}
			if len(goes) > 0 {
				ob.Status = "failed-unknown"
				ob.Output = "go statements at " + strings.Join(goes, ", ")
			}
			r.Obs = append(r.Obs, ob)
		}
		out = append(out, r)
	}
	return out
}


// usesAfterReleasePos: positions of instructions that use a pooled buffer (or a value derived from it by slicing,
// indexing, phi or conversion) on some path after a non-deferred utils.ReleaseBuffer call on it.
func usesAfterReleasePos(fn *ssa.Function) []token.Pos {
	var out []token.Pos
	for _, b := range fn.Blocks {
		for i, ins := range b.Instrs {
			call, ok := ins.(*ssa.Call)
			if !ok {
				continue
			}
			callee := call.Call.StaticCallee()
			if callee == nil || callee.Name() != "ReleaseBuffer" || callee.Pkg == nil || callee.Pkg.Pkg.Name() != "utils" || len(call.Call.Args) != 1 {
				continue
			}
			// alias set of the released value: what it was derived from and what is derived from those
			alias := map[ssa.Value]bool{}
			var up func(v ssa.Value)
			up = func(v ssa.Value) {
				if alias[v] {
					return
				}
				alias[v] = true
				switch x := v.(type) {
				case *ssa.Slice:
					up(x.X)
				case *ssa.ChangeType:
					up(x.X)
				case *ssa.Phi:
					for _, e := range x.Edges {
						up(e)
					}
				}
			}
			up(call.Call.Args[0])
			// the instruction that (re)defines the buffer: past it a path works on a newly acquired buffer
			var rootDef ssa.Instruction
			{
				v := call.Call.Args[0]
				for {
					if sl, ok := v.(*ssa.Slice); ok {
						v = sl.X
						continue
					}
					if ct, ok := v.(*ssa.ChangeType); ok {
						v = ct.X
						continue
					}
					break
				}
				if in0, ok := v.(ssa.Instruction); ok {
					if _, isPhi := v.(*ssa.Phi); !isPhi {
						rootDef = in0
					}
				}
			}
			changed := true
			for changed {
				changed = false
				for _, bb := range fn.Blocks {
					for _, in2 := range bb.Instrs {
						v, isVal := in2.(ssa.Value)
						if !isVal || alias[v] {
							continue
						}
						switch x := in2.(type) {
						case *ssa.Slice:
							if alias[x.X] {
								alias[v] = true
								changed = true
							}
						case *ssa.IndexAddr:
							if alias[x.X] {
								alias[v] = true
								changed = true
							}
						case *ssa.ChangeType:
							if alias[x.X] {
								alias[v] = true
								changed = true
							}
						}
					}
				}
			}
			// instructions reachable after the release (same block after it, then successors transitively)
			seen := map[*ssa.BasicBlock]bool{}
			check := func(in2 ssa.Instruction) {
				switch in2.(type) {
				case *ssa.Slice, *ssa.IndexAddr, *ssa.ChangeType, *ssa.Phi, *ssa.DebugRef:
					return // deriving a value is not a use; the use of the derived value is
				}
				if c2, ok := in2.(*ssa.Call); ok {
					if cc := c2.Call.StaticCallee(); cc != nil && cc.Name() == "ReleaseBuffer" {
						return
					}
				}
				for _, op := range in2.Operands(nil) {
					if *op != nil && alias[*op] {
						out = append(out, in2.Pos())
						return
					}
				}
			}
			for _, in2 := range b.Instrs[i+1:] {
				check(in2)
			}
			var walk func(bb *ssa.BasicBlock)
			walk = func(bb *ssa.BasicBlock) {
				if seen[bb] {
					return
				}
				seen[bb] = true
				for _, in2 := range bb.Instrs {
					if in2 == ins || (rootDef != nil && in2 == rootDef) {
						return // the buffer is released again or re-acquired: this path is done
					}
					check(in2)
				}
				for _, s := range bb.Succs {
					walk(s)
				}
			}
			for _, s := range b.Succs {
				walk(s)
			}
		}
	}
	return out
}
