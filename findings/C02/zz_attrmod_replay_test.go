package structures_test

import (
	"bytes"
	"encoding/binary"
	"testing"

	"github.com/scigolib/hdf5/internal/core"
	"github.com/scigolib/hdf5/internal/structures"
)

// FIXED (C02/C16): a failing ModifyDenseAttribute (heap full) used to delete the old value before failing to insert the new one.
func TestReplayModifyDenseAtomicFixed(t *testing.T) {
	heap := structures.NewWritableFractalHeap(64)
	bt := structures.NewWritableBTreeV2(4096)
	a := bytes.Repeat([]byte{0xAA}, 20)
	b := bytes.Repeat([]byte{0xBB}, 20)
	ida, err := heap.InsertObject(a)
	if err != nil {
		t.Fatal(err)
	}
	idb, err := heap.InsertObject(b)
	if err != nil {
		t.Fatal(err)
	}
	if err := bt.InsertRecord("a", binary.LittleEndian.Uint64(ida)); err != nil {
		t.Fatal(err)
	}
	if err := bt.InsertRecord("b", binary.LittleEndian.Uint64(idb)); err != nil {
		t.Fatal(err)
	}
	before, _ := heap.GetObject(ida)
	before = append([]byte(nil), before...)
	err = core.ModifyDenseAttribute(heap, bt, "a", &core.Attribute{Name: "a", Data: bytes.Repeat([]byte{0xCC}, 70000)})
	t.Logf("ModifyDenseAttribute returned: %v", err)
	if err == nil {
		t.Skip("modify succeeded; heap not full")
	}
	id2, found := bt.SearchRecord("a")
	after, gerr := heap.GetObject(id2)
	t.Logf("found=%v getErr=%v before=%x after=%x", found, gerr, before, after)
	if !bytes.Equal(before, after) {
		t.Fatalf("C16 VIOLATION: call returned an error but the value of attribute a changed")
	}
}
