package hdf5

import "testing"

func TestHslReplayBlockWrap(t *testing.T) {
	dims := []uint64{10}
	sel := &HyperslabSelection{Start: []uint64{5}, Count: []uint64{1}, Stride: []uint64{1}, Block: []uint64{18446744073709551613}}
	err := validateHyperslabSelection(sel, dims)
	t.Logf("block wrap: err=%v outputSize=%d", err, calculateHyperslabOutputSize(sel))
	if err == nil {
		t.Errorf("DEFECT: out-of-bounds selection start=5 count=1 stride=1 block=2^64-3 accepted for dim=10")
	}
}

func TestHslReplayTooLarge(t *testing.T) {
	dims := []uint64{2000000000}
	sel := &HyperslabSelection{Start: []uint64{0}, Count: []uint64{2000000000}}
	err := validateHyperslabSelection(sel, dims)
	t.Logf("large valid: err=%v", err)
	if err != nil {
		t.Errorf("DEFECT(completeness): in-bounds selection rejected: %v", err)
	}
}

func TestHslReplayRank0(t *testing.T) {
	sel := &HyperslabSelection{Start: []uint64{}, Count: []uint64{}}
	err := validateHyperslabSelection(sel, []uint64{})
	t.Logf("rank0: err=%v", err)
	if err != nil {
		t.Errorf("DEFECT(completeness): rank-0 selection rejected: %v", err)
	}
}

func TestHslReplayReadSliceWrap(t *testing.T) {
	tmpDir := t.TempDir()
	filename := tmpDir + "/w.h5"
	fw, err := CreateForWrite(filename, CreateTruncate)
	if err != nil {
		t.Fatal(err)
	}
	dw, err := fw.CreateDataset("/data", Int32, []uint64{100})
	if err != nil {
		t.Fatal(err)
	}
	data := make([]int32, 100)
	for i := range data {
		data[i] = int32(i + 1000)
	}
	if err := dw.Write(data); err != nil {
		t.Fatal(err)
	}
	if err := fw.Close(); err != nil {
		t.Fatal(err)
	}
	f, err := Open(filename)
	if err != nil {
		t.Fatal(err)
	}
	defer func() { _ = f.Close() }()
	ds, found := findDatasetByName(f, "data")
	if !found {
		t.Fatal("not found")
	}
	res, err := ds.ReadSlice([]uint64{18446744073709551614}, []uint64{4})
	t.Logf("ReadSlice(start=2^64-2,count=4) on dims=[100]: res=%v err=%v", res, err)
	if err == nil {
		t.Errorf("DEFECT: out-of-bounds ReadSlice accepted (start+count wrapped to 2)")
	}
	res, err = ds.ReadSlice([]uint64{50}, []uint64{0})
	t.Logf("ReadSlice(start=50,count=0): res=%v err=%v", res, err)
}

func TestHslReplayScalar(t *testing.T) {
	tmpDir := t.TempDir()
	filename := tmpDir + "/s.h5"
	fw, err := CreateForWrite(filename, CreateTruncate)
	if err != nil {
		t.Fatal(err)
	}
	dw, err := fw.CreateDataset("/data", Float64, []uint64{})
	if err != nil {
		t.Skipf("scalar create not supported: %v", err)
	}
	if err := dw.Write([]float64{42}); err != nil {
		t.Skipf("scalar write: %v", err)
	}
	if err := fw.Close(); err != nil {
		t.Fatal(err)
	}
	f, err := Open(filename)
	if err != nil {
		t.Fatal(err)
	}
	defer func() { _ = f.Close() }()
	ds, found := findDatasetByName(f, "data")
	if !found {
		t.Fatal("not found")
	}
	full, err := ds.Read()
	t.Logf("full Read: %v err=%v", full, err)
	res, err := ds.ReadSlice([]uint64{}, []uint64{})
	t.Logf("ReadSlice([],[]): res=%v err=%v", res, err)
}

func hslMk(t *testing.T, name string, dims []uint64, opts ...DatasetOption) *Dataset {
	tmpDir := t.TempDir()
	filename := tmpDir + "/" + name + ".h5"
	fw, err := CreateForWrite(filename, CreateTruncate)
	if err != nil {
		t.Fatal(err)
	}
	dw, err := fw.CreateDataset("/data", Float64, dims, opts...)
	if err != nil {
		t.Fatal(err)
	}
	n := uint64(1)
	for _, d := range dims {
		n *= d
	}
	data := make([]float64, n)
	for i := range data {
		data[i] = float64(i)
	}
	if err := dw.Write(data); err != nil {
		t.Fatal(err)
	}
	if err := fw.Close(); err != nil {
		t.Fatal(err)
	}
	f, err := Open(filename)
	if err != nil {
		t.Fatal(err)
	}
	t.Cleanup(func() { _ = f.Close() })
	ds, found := findDatasetByName(f, "data")
	if !found {
		t.Fatal("not found")
	}
	return ds
}

// reference: select from the full read
func hslRef(dims []uint64, sel *HyperslabSelection) []float64 {
	var out []float64
	var rec func(d int, off uint64)
	rec = func(d int, off uint64) {
		if d == len(dims) {
			out = append(out, float64(off))
			return
		}
		for c := uint64(0); c < sel.Count[d]; c++ {
			for b := uint64(0); b < sel.Block[d]; b++ {
				rec(d+1, off*dims[d]+sel.Start[d]+c*sel.Stride[d]+b)
			}
		}
	}
	rec(0, 0)
	return out
}

func hslCheck(t *testing.T, ds *Dataset, dims []uint64, sel *HyperslabSelection) {
	res, err := ds.ReadHyperslab(sel)
	if err != nil {
		t.Errorf("ReadHyperslab error: %v", err)
		return
	}
	want := hslRef(dims, sel)
	got := res.([]float64)
	t.Logf("sel start=%v count=%v stride=%v block=%v\n  got  %v\n  want %v", sel.Start, sel.Count, sel.Stride, sel.Block, got, want)
	if len(got) != len(want) {
		t.Errorf("DEFECT: length %d != %d", len(got), len(want))
		return
	}
	for i := range got {
		if got[i] != want[i] {
			t.Errorf("DEFECT: element %d: got %v want %v", i, got[i], want[i])
			return
		}
	}
}

func TestHslReplayContig3D(t *testing.T) {
	dims := []uint64{4, 4, 4}
	ds := hslMk(t, "c3", dims)
	hslCheck(t, ds, dims, &HyperslabSelection{Start: []uint64{0, 1, 0}, Count: []uint64{2, 2, 4}})
}

func TestHslReplayContig2DStride(t *testing.T) {
	dims := []uint64{4, 4}
	ds := hslMk(t, "c2", dims)
	hslCheck(t, ds, dims, &HyperslabSelection{Start: []uint64{0, 0}, Count: []uint64{2, 4}, Stride: []uint64{2, 1}, Block: []uint64{1, 1}})
}

func TestHslReplayContig1DStride(t *testing.T) {
	dims := []uint64{20}
	ds := hslMk(t, "c1", dims)
	hslCheck(t, ds, dims, &HyperslabSelection{Start: []uint64{0}, Count: []uint64{5}, Stride: []uint64{2}, Block: []uint64{1}})
}

// hdf5.calculateHyperslabOutputSize#overflow: the element count is multiplied without an overflow check.
func TestFindingC09_OutputSizeWraps(t *testing.T) {
	sel := &HyperslabSelection{Start: []uint64{0}, Count: []uint64{1 << 33}, Stride: []uint64{1 << 33}, Block: []uint64{1 << 33}}
	if n := calculateHyperslabOutputSize(sel); n == 0 {
		t.Errorf("FINDING: count=2^33, block=2^33 selects 2^66 elements; calculateHyperslabOutputSize returned %d (wrapped) and callers treat 0 as an empty result", n)
	}
}
