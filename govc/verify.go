package main

import (
	"regexp"
	"fmt"
	"go/token"
	"go/types"
	"sort"
	"strings"
	"sync"

	"golang.org/x/tools/go/ssa"
)

var defaultKinds = []string{"idx", "slice", "div0", "neglen", "alloc-cap", "assert-type", "negshift", "nil-map",
	"pre", "post", "inv-init", "inv-pres", "decreases", "lemma", "panic-call", "spec", "frame"}

type FuncResult struct {
	Func    string
	Obs     []*Oblig
	Partial []string
	Fatal   string
	HasContract bool
	Ctx     *Ctx
	Params  []ModelVar
	AutoInv  int
	AutoInvs []string
	IntMode  bool
}

// generateAll generates the obligations of functions and lemmas: first all bit-vector-mode items,
// then (with the global integer mode switched) all int-mode items.
func (e *Env) generateAll(fns []*ssa.Function, lems []*Lemma, extraKinds []string) []*FuncResult {
	results := make([]*FuncResult, len(fns)+len(lems))
	for pass := 0; pass < 2; pass++ {
		intPass := pass == 1
		setIntMode(intPass)
		var wg sync.WaitGroup
		sem := make(chan bool, 8)
		for i, f := range fns {
			c := e.contractOf(f)
			if (c != nil && c.IntMode) != intPass {
				continue
			}
			wg.Add(1)
			go func(i int, f *ssa.Function) {
				defer wg.Done()
				sem <- true
				results[i] = e.verifyFunc(f, extraKinds)
				results[i].IntMode = intPass
				<-sem
			}(i, f)
		}
		for j, lm := range lems {
			if lm.IntMode != intPass {
				continue
			}
			wg.Add(1)
			go func(j int, lm *Lemma) {
				defer wg.Done()
				sem <- true
				results[len(fns)+j] = e.verifyLemma(lm)
				results[len(fns)+j].IntMode = intPass
				<-sem
			}(j, lm)
		}
		wg.Wait()
	}
	setIntMode(false)
	return results
}

func shortText(s string) string {
	s = strings.Join(strings.Fields(s), " ")
	if len(s) > 100 {
		s = s[:100] + "…"
	}
	return s
}

// verifyFunc generates all obligations of one function.
func (e *Env) verifyFunc(fn *ssa.Function, extraKinds []string) *FuncResult {
	return e.verifyFuncAuto(fn, extraKinds, solveCfg{})
}

func (e *Env) verifyFuncWith(fn *ssa.Function, extraKinds []string, auto map[*ssa.BasicBlock][]*autoInv) (res *FuncResult) {
	ft := &FT{auto: auto, e: e, c: NewCtx(), fn: fn, memSyms: map[string]Term{}, partial: map[string]bool{}, names: map[string]int{}, kinds: map[string]bool{}}
	res = &FuncResult{Func: funcName(fn), Ctx: ft.c}
	defer func() {
		if r := recover(); r != nil {
			res.Fatal = fmt.Sprintf("translator panic: %v", r)
			res.Obs = nil
		}
	}()
	for _, k := range defaultKinds {
		ft.kinds[k] = true
	}
	for _, k := range extraKinds {
		ft.kinds[k] = true
	}
	ft.c.Preamble = append(ft.c.Preamble, e.smtPre...)
	if gInt {
		ft.c.addPre("intmode", intModePreamble)
	}
	con := e.contractOf(fn)
	ft.topCon = con
	if con != nil {
		res.HasContract = true
		for _, k := range con.Kinds {
			if strings.HasPrefix(k, "-") {
				delete(ft.kinds, k[1:])
			} else {
				ft.kinds[k] = true
			}
		}
	}
	fr := &frame{ft: ft, fn: fn, vals: map[ssa.Value]*Val{}, dbg: map[types.Object][]ssa.Value{}, con: con}
	mem := newMem()
	ft.entryMem = mem.clone()
	fr.oldMem = ft.entryMem
	for _, p := range fn.Params {
		v := ft.freshInput("p$"+p.Name(), p.Type())
		fr.vals[p] = v
		if isSlice(p.Type()) {
			ft.noteLen(v.sLen())
		}
		fr.args = append(fr.args, v)
		for i, l := range leavesOf(p.Type()) {
			res.Params = append(res.Params, ModelVar{Label: p.Name() + l.Path, Term: v.L[i], Needs: []string{v.L[i].T}})
		}
		// element values of integer slices / bytes of strings (first 48) for replay
		if isSlice(p.Type()) {
			if w, _, ok := isIntType(sliceElem(p.Type())); ok {
				comp := "E:" + typeKey(sliceElem(p.Type()))
				m := ft.memGet(mem, comp, SArr(SInt, SArr(SIdx, SBV(w))))
				for k := 0; k < 48; k++ {
					t := mkSelect(mkSelect(m, v.sRef()), app(SIdx, "bvadd", v.sOff(), idxInt(int64(k))))
					res.Params = append(res.Params, ModelVar{Label: fmt.Sprintf("%s[%d]", p.Name(), k), Term: t, Needs: []string{m.T, v.sRef().T, v.sOff().T}})
				}
			}
		} else if isString(p.Type()) {
			for k := 0; k < 48; k++ {
				t := mkSelect(v.strArr(), app(SIdx, "bvadd", v.strOff(), idxInt(int64(k))))
				res.Params = append(res.Params, ModelVar{Label: fmt.Sprintf("%s[%d]", p.Name(), k), Term: t, Needs: []string{v.strArr().T, v.strOff().T}})
			}
		}
	}
	for _, fv := range fn.FreeVars {
		v := ft.freshVal("fv$"+fv.Name(), fv.Type())
		fr.free = append(fr.free, v)
	}
	ft.params = res.Params
	pc := tTrue
	fr.cur = &bstate{pc: pc, mem: mem}
	fr.curBlock = fn.Blocks[0]
	if con != nil {
		sc := &Scope{fr: fr, mem: mem, old: mem, vars: map[string]*sv{}, res: fr.resolver(nil, nil), pkg: fr.pkg()}
		var pres []Term
		for _, r := range con.Requires {
			t := sc.evalBool(r.E)
			if sc.err != nil {
				res.Fatal = fmt.Sprintf("%s:%d: requires: %v", r.File, r.Line, sc.err)
				return res
			}
			pres = append(pres, t)
		}
		for _, a := range con.Assigns {
			if mentionsResult(a.E) {
				continue // result locations are fresh or covered by parameter items
			}
			it, err := sc.evalAssignItem(a)
			if err != nil {
				res.Fatal = fmt.Sprintf("%s:%d: %v", a.File, a.Line, err)
				return res
			}
			ft.assignItems = append(ft.assignItems, it)
		}
		pc = ft.c.Define("pre", mkAnd(pres...))
		// vacuity guard: the precondition must be satisfiable
		if len(pres) > 0 {
			ft.obs = append(ft.obs, &Oblig{Name: funcName(fn) + "#cover#requires#0", Kind: "cover", Func: funcName(fn), Text: "requires satisfiable",
				Hyp: pc, Goal: tTrue, Cover: true})
		}
	}
	fr.run(pc, mem)
	if ft.fatal != "" {
		res.Fatal = ft.fatal
		return res
	}
	// fail-stop: a failed callee obliges a non-nil error result
	if ft.kinds["failstop"] {
		rsig := fn.Signature.Results()
		if n := rsig.Len(); n > 0 && rsig.At(n-1).Type().String() == "error" {
			for _, rs := range fr.rets {
				if len(rs.vals) == n && len(rs.vals[n-1].L) > 0 {
					fr.failstopAtReturn(rs, mkNot(mkEq(rs.vals[n-1].L[0], intConst(0))))
				}
			}
		}
	}
	// postconditions
	if con != nil {
		for _, rs := range fr.rets {
			fr.cur = &bstate{pc: rs.pc, mem: rs.mem}
			sc := fr.postScope(fn, con, rs.vals, rs.mem, ft.entryMem, fr.args)
			for _, en := range con.Ensures {
				t := sc.evalBool(en.E)
				if sc.err != nil {
					res.Fatal = fmt.Sprintf("%s:%d: ensures: %v", en.File, en.Line, sc.err)
					return res
				}
				fr.obligeAt(rs.pc, "post", shortText(en.Src), rs.pos, t)
			}
		}
	}
	if con != nil && con.Abstracts != "" {
		ob := &Oblig{Name: funcName(fn) + "#purity#abstracts " + con.Abstracts + "#0", Kind: "purity", Func: funcName(fn), Text: "abstracts " + con.Abstracts,
			Hyp: tTrue, Goal: tTrue, Pre: true, Backend: "syntactic purity check over go/ssa"}
		if why := impure(fn); why == "" {
			ob.Status = "discharged"
		} else {
			ob.Status = "failed-unknown"
			ob.Output = "function is not a pure function of its argument values: " + why
		}
		ft.obs = append(ft.obs, ob)
	}
	res.Obs = ft.obs
	for k := range ft.partial {
		res.Partial = append(res.Partial, k)
	}
	sort.Strings(res.Partial)
	return res
}

// impure: "" if the function's result is a deterministic function of its argument values: it writes only
// memory it allocates itself, reads only its parameters (strings are immutable) and its own allocations, and
// calls nothing but len/cap.
func impure(fn *ssa.Function) string {
	local := map[ssa.Value]bool{}
	var isLocal func(v ssa.Value) bool
	isLocal = func(v ssa.Value) bool {
		switch x := v.(type) {
		case *ssa.Alloc:
			return true
		case *ssa.IndexAddr:
			return isLocal(x.X)
		case *ssa.FieldAddr:
			return isLocal(x.X)
		case *ssa.Slice:
			return isLocal(x.X)
		}
		return local[v]
	}
	for _, p := range fn.Params {
		if !isString(p.Type()) {
			if _, _, ok := isIntType(p.Type()); !ok && !isBoolType(p.Type()) {
				if _, okf := isFloatType(p.Type()); !okf {
					return "parameter " + p.Name() + " is not a scalar or string"
				}
			}
		}
	}
	for _, b := range fn.Blocks {
		for _, in := range b.Instrs {
			switch x := in.(type) {
			case *ssa.Store:
				if !isLocal(x.Addr) {
					return "store to non-local memory"
				}
			case *ssa.UnOp:
				if x.Op == token.MUL && !isLocal(x.X) {
					return "load from non-local memory"
				}
				if x.Op == token.ARROW {
					return "channel receive"
				}
			case *ssa.Call:
				if bi, ok := x.Call.Value.(*ssa.Builtin); ok && (bi.Name() == "len" || bi.Name() == "cap") {
					continue
				}
				return "call to " + calleeName(&x.Call)
			case *ssa.Go, *ssa.Defer, *ssa.Send, *ssa.Select, *ssa.MapUpdate, *ssa.MakeClosure, *ssa.Range, *ssa.Next:
				return fmt.Sprintf("unsupported instruction %T", in)
			}
		}
	}
	return ""
}

func (fr *frame) obligeAt(hyp Term, kind, text string, pos token.Pos, goal Term) {
	ft := fr.ft
	if goal.T == "true" {
		// still record trivially-true obligations as discharged? skip: nothing to prove
		return
	}
	if !ft.kinds[kind] && !ft.kinds["*"] {
		return
	}
	base := fmt.Sprintf("%s#%s#%s", ft.fname(), kind, text)
	k := ft.names[base]
	ft.names[base] = k + 1
	ft.obs = append(ft.obs, &Oblig{Name: fmt.Sprintf("%s#%d", base, k), Kind: kind, Func: ft.fname(), Text: text,
		Pos: ft.e.pos(pos), Hyp: hyp, Goal: goal})
}

// postScope: scope for evaluating ensures clauses of fn given argument and result values.
func (fr *frame) postScope(fn *ssa.Function, con *Contract, results []*Val, mem, old *Mem, args []*Val) *Scope {
	sc := &Scope{fr: fr, mem: mem, old: old, vars: map[string]*sv{}, pkg: fnPkg(fn)}
	for i, p := range fn.Params {
		if i < len(args) {
			a := *args[i]
			a.T = p.Type()
			sc.vars[p.Name()] = &sv{v: &a}
		}
	}
	for i, fv := range fn.FreeVars {
		if i < len(fr.free) && fr.free[i] != nil && fr.fn == fn {
			sc.vars[fv.Name()] = &sv{v: fr.free[i]}
		}
	}
	rs := fn.Signature.Results()
	for i := 0; i < rs.Len() && i < len(results); i++ {
		r := *results[i]
		r.T = rs.At(i).Type()
		if n := rs.At(i).Name(); n != "" && n != "_" {
			sc.vars[n] = &sv{v: &r}
		}
		sc.vars[fmt.Sprintf("result%d", i)] = &sv{v: &r}
		if i == 0 {
			sc.vars["result"] = &sv{v: &r}
		}
		if i == rs.Len()-1 && isInterface(rs.At(i).Type()) && rs.At(i).Type().String() == "error" {
			if _, taken := sc.vars["err"]; !taken {
				sc.vars["err"] = &sv{v: &r}
			}
		}
	}
	return sc
}

// resultBase: the identifier at the root of a location expression, if it is a result name.
func resultBase(e *SExpr) *SExpr {
	for e != nil {
		if e.Op == "id" {
			return e
		}
		if len(e.Args) == 0 {
			return nil
		}
		e = e.Args[0]
	}
	return nil
}

func fnPkg(fn *ssa.Function) *types.Package {
	f := fn
	for f.Parent() != nil {
		f = f.Parent()
	}
	if f.Pkg != nil {
		return f.Pkg.Pkg
	}
	if f.Object() != nil {
		return f.Object().Pkg()
	}
	return nil
}

func (fr *frame) loopSpec(li *loopInfo) *LoopSpec {
	if fr.con == nil {
		return nil
	}
	return fr.con.Loops[li.ordinal]
}

func (fr *frame) checkInvariants(li *loopInfo, hyp Term, mem *Mem, over map[*ssa.Phi]*Val, kind string, pos token.Pos) {
	if fr.depth == 0 && fr.ft.auto != nil {
		ak := "auto-init"
		if kind == "inv-pres" {
			ak = "auto-pres"
		}
		for _, a := range fr.ft.auto[li.head] {
			if a.dead {
				continue
			}
			if t, ok := fr.autoTerm(a, over); ok {
				fr.ft.obs = append(fr.ft.obs, &Oblig{Name: fr.ft.fname() + "#" + ak + "#" + a.id, Kind: ak, Func: fr.ft.fname(), Text: a.id, Hyp: hyp, Goal: t})
			} else {
				a.dead = true
			}
		}
	}
	ls := fr.loopSpec(li)
	if ls == nil {
		return
	}
	sc := &Scope{fr: fr, mem: mem, old: fr.oldMem, vars: map[string]*sv{}, res: fr.resolver(li, over), pkg: fr.pkg()}
	for _, inv := range ls.Invariants {
		t := sc.evalBool(inv.E)
		if sc.err != nil {
			fr.ft.fatal = fmt.Sprintf("%s:%d: invariant: %v", inv.File, inv.Line, sc.err)
			return
		}
		fr.obligeAt(hyp, kind, fmt.Sprintf("loop %d: %s", li.ordinal, shortText(inv.Src)), pos, t)
	}
}

func (fr *frame) assumeInvariants(li *loopInfo) {
	if fr.depth == 0 && fr.ft.auto != nil {
		for _, a := range fr.ft.auto[li.head] {
			if a.dead {
				continue
			}
			if t, ok := fr.autoTerm(a, nil); ok {
				fr.assume(t)
			}
		}
	}
	ls := fr.loopSpec(li)
	if ls == nil {
		return
	}
	sc := &Scope{fr: fr, mem: fr.cur.mem, old: fr.oldMem, vars: map[string]*sv{}, res: fr.resolver(li, nil), pkg: fr.pkg()}
	for _, inv := range ls.Invariants {
		t := sc.evalBool(inv.E)
		if sc.err != nil {
			fr.ft.fatal = fmt.Sprintf("%s:%d: invariant: %v", inv.File, inv.Line, sc.err)
			return
		}
		fr.assume(t)
	}
}

// callByContract: assert pre, havoc what the callee may write, assume post.
// sigInfo describes the callee of a contract call: a real function, or an interface method (receiver named `self`).
type sigInfo struct {
	name    string
	params  []string
	ptypes  []types.Type
	results *types.Tuple
	pkg     *types.Package
}

func sigOfFunc(f *ssa.Function) *sigInfo {
	si := &sigInfo{name: f.Name(), results: f.Signature.Results(), pkg: fnPkg(f)}
	for _, p := range f.Params {
		si.params = append(si.params, p.Name())
		si.ptypes = append(si.ptypes, p.Type())
	}
	return si
}

func sigOfMethod(c *ssa.CallCommon) *sigInfo {
	sig := c.Method.Type().(*types.Signature)
	si := &sigInfo{name: c.Method.Name(), results: sig.Results(), pkg: c.Method.Pkg()}
	si.params = append(si.params, "self")
	si.ptypes = append(si.ptypes, c.Value.Type())
	for i := 0; i < sig.Params().Len(); i++ {
		n := sig.Params().At(i).Name()
		if n == "" || n == "_" {
			n = fmt.Sprintf("arg%d", i)
		}
		si.params = append(si.params, n)
		si.ptypes = append(si.ptypes, sig.Params().At(i).Type())
	}
	return si
}

func (fr *frame) postScopeSig(si *sigInfo, results []*Val, mem, old *Mem, args []*Val) *Scope {
	sc := &Scope{fr: fr, mem: mem, old: old, vars: map[string]*sv{}, pkg: si.pkg}
	for i, n := range si.params {
		if i < len(args) {
			a := *args[i]
			a.T = si.ptypes[i]
			sc.vars[n] = &sv{v: &a}
		}
	}
	rs := si.results
	for i := 0; i < rs.Len() && i < len(results); i++ {
		r := *results[i]
		r.T = rs.At(i).Type()
		if n := rs.At(i).Name(); n != "" && n != "_" {
			sc.vars[n] = &sv{v: &r}
		}
		sc.vars[fmt.Sprintf("result%d", i)] = &sv{v: &r}
		if i == 0 {
			sc.vars["result"] = &sv{v: &r}
		}
		if i == rs.Len()-1 && isInterface(rs.At(i).Type()) && rs.At(i).Type().String() == "error" {
			if _, taken := sc.vars["err"]; !taken {
				sc.vars["err"] = &sv{v: &r}
			}
		}
	}
	return sc
}

func (fr *frame) callByContract(con *Contract, callee *ssa.Function, c *ssa.CallCommon, args []*Val, rt types.Type, pos token.Pos) *Val {
	var si *sigInfo
	if callee != nil {
		si = sigOfFunc(callee)
	} else {
		si = sigOfMethod(c)
	}
	return fr.callBySig(con, si, c, args, rt, pos)
}

func (fr *frame) callBySig(con *Contract, si *sigInfo, c *ssa.CallCommon, args []*Val, rt types.Type, pos token.Pos) *Val {
	ft := fr.ft
	preHyp := fr.cur.pc
	pre := fr.cur.mem.clone()
	scPre := &Scope{fr: fr, mem: pre, old: pre, vars: map[string]*sv{}, pkg: si.pkg}
	callLo := int64(allocBase) + int64(ft.nalloc)
	scPre.freshLo = callLo
	for i, n := range si.params {
		if i < len(args) {
			a := *args[i]
			a.T = si.ptypes[i]
			scPre.vars[n] = &sv{v: &a}
		}
	}
	for _, r := range con.Requires {
		t := scPre.evalBool(r.E)
		if scPre.err != nil {
			ft.fatal = fmt.Sprintf("%s:%d: requires (at call): %v", r.File, r.Line, scPre.err)
			return nil
		}
		fr.oblige("pre", fmt.Sprintf("%s: %s", si.name, shortText(r.Src)), pos, t)
	}
	var results []*Val
	rs := si.results
	if con.HasAssigns {
		var items []*assignItem
		for _, a := range con.Assigns {
			if mentionsResult(a.E) {
				continue
			}
			it, err := scPre.evalAssignItem(a)
			if err != nil {
				ft.fatal = fmt.Sprintf("%s:%d: %v", a.File, a.Line, err)
				return nil
			}
			items = append(items, it)
			// the caller's own frame must allow what the callee may write
			var cs []string
			for c := range it.comps {
				cs = append(cs, c)
			}
			sort.Strings(cs)
			fr.frameCheck(cs, it.ref, fmt.Sprintf("%s assigns %s", si.name, a.Src), pos)
		}
		fr.applyAssigns(items)
		// results designated by result-based items are memory allocated by the callee: their reference is a fresh
		// allocation (or nil), not an input-range reference
		resFresh := map[string]bool{}
		for _, a := range con.Assigns {
			if mentionsResult(a.E) {
				if base := resultBase(a.E); base != nil {
					resFresh[base.Name] = true
				}
			}
		}
		markFreshFromEnsures(con, resFresh)
		for i := 0; i < rs.Len(); i++ {
			r := ft.freshInput(fmt.Sprintf("r$%s$%d", si.name, i), rs.At(i).Type())
			names := []string{fmt.Sprintf("result%d", i), rs.At(i).Name()}
			if i == 0 {
				names = append(names, "result")
			}
			isFresh := false
			for _, n := range names {
				if n != "" && resFresh[n] {
					isFresh = true
				}
			}
			if isFresh && len(r.L) > 0 && r.L[0].S == SInt && (isPointer(r.T) || isSlice(r.T)) {
				isNil := ft.c.Fresh("resnil", SBool)
				nr := *r
				nr.L = append([]Term{}, r.L...)
				nr.L[0] = ft.c.Define("resref", mkIte(isNil, intConst(0), ft.newRef()))
				if isSlice(r.T) {
					// nil slice has len = cap = 0
					fr.assume(mkImp(isNil, mkAnd(mkEq(nr.L[2], idxInt(0)), mkEq(nr.L[3], idxInt(0)))))
				}
				r = &nr
			}
			results = append(results, r)
		}
		for _, a := range con.Assigns {
			if !mentionsResult(a.E) {
				continue
			}
			scR := fr.postScopeSig(si, results, fr.cur.mem, pre, args)
			it, err := scR.evalAssignItem(a)
			if err != nil {
				ft.fatal = fmt.Sprintf("%s:%d: %v", a.File, a.Line, err)
				return nil
			}
			fr.applyAssigns([]*assignItem{it})
		}
	} else {
		fr.havocCall(c)
		resFresh := map[string]bool{}
		markFreshFromEnsures(con, resFresh)
		for i := 0; i < rs.Len(); i++ {
			r := ft.freshInput(fmt.Sprintf("r$%s$%d", si.name, i), rs.At(i).Type())
			names := []string{fmt.Sprintf("result%d", i), rs.At(i).Name()}
			if i == 0 {
				names = append(names, "result")
			}
			isFresh := false
			for _, n := range names {
				if n != "" && resFresh[n] {
					isFresh = true
				}
			}
			if isFresh && len(r.L) > 0 && r.L[0].S == SInt && (isPointer(r.T) || isSlice(r.T)) {
				// the contract says the result is freshly allocated: it is a new reference (or nil), not an input-range one
				isNil := ft.c.Fresh("resnil", SBool)
				nr := *r
				nr.L = append([]Term{}, r.L...)
				nr.L[0] = ft.c.Define("resref", mkIte(isNil, intConst(0), ft.newRef()))
				if isSlice(r.T) {
					fr.assume(mkImp(isNil, mkAnd(mkEq(nr.L[2], idxInt(0)), mkEq(nr.L[3], idxInt(0)))))
				}
				r = &nr
			}
			results = append(results, r)
		}
	}
	// references the callee allocates (beyond the results themselves) live in a reserved block above every
	// reference of the caller; the caller's later allocations come after it
	ft.nalloc += calleeAllocBlock
	sc := fr.postScopeSig(si, results, fr.cur.mem, pre, args)
	sc.freshLo, sc.freshHi = callLo, int64(allocBase)+int64(ft.nalloc)
	for _, en := range con.Ensures {
		if en.NoAssume {
			continue // a `claims` clause states what the property demands; callers may not rely on it
		}
		t := sc.evalBool(en.E)
		if sc.err != nil {
			ft.fatal = fmt.Sprintf("%s:%d: ensures (at call): %v", en.File, en.Line, sc.err)
			return nil
		}
		fr.assume(t)
	}
	if con.Abstracts != "" && len(results) == 1 {
		var as []*SExpr
		for _, n := range si.params {
			as = append(as, &SExpr{Op: "id", Name: n})
		}
		eq := &SExpr{Op: "binop", Name: "==", Args: []*SExpr{{Op: "id", Name: "result"}, {Op: "call", Name: con.Abstracts, Args: as}}}
		t := sc.evalBool(eq)
		if sc.err != nil {
			ft.fatal = fmt.Sprintf("%s:%d: abstracts (at call): %v", con.File, con.Line, sc.err)
			return nil
		}
		fr.assume(t)
	}
	// vacuity guard: the assumed postconditions must not make a feasible path infeasible
	{
		base := fmt.Sprintf("%s#cover#after call to %s", ft.fname(), si.name)
		k := ft.names[base]
		ft.names[base] = k + 1
		ft.obs = append(ft.obs, &Oblig{Name: fmt.Sprintf("%s#%d", base, k), Kind: "cover", Func: ft.fname(), Text: "postconditions of " + si.name + " are consistent here",
			Pos: ft.e.pos(pos), Hyp: fr.cur.pc, Hyp2: preHyp, Goal: tTrue, Cover: true})
	}
	switch len(results) {
	case 0:
		return &Val{T: rt, Tup: []*Val{}}
	case 1:
		return results[0]
	}
	return &Val{T: rt, Tup: results}
}


var reFreshResult = regexp.MustCompile(`fresh\(\s*([A-Za-z_][A-Za-z0-9_]*)\s*\)`)

// markFreshFromEnsures: a result that an (assumed) postcondition calls fresh(...) is modelled as a fresh reference,
// otherwise the clause would contradict the input-range assumption on call results and make the caller vacuous.
func markFreshFromEnsures(con *Contract, resFresh map[string]bool) {
	for _, en := range con.Ensures {
		if en.NoAssume {
			continue
		}
		for _, m := range reFreshResult.FindAllStringSubmatch(en.Src, -1) {
			resFresh[m[1]] = true
		}
	}
}
