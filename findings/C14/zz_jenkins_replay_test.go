package structures

// Demonstration for property C14 (last sentence): "The key hash equals the HDF5 name hash (Jenkins lookup3) for every
// byte string."  HDF5's name hash is H5_checksum_lookup3(key, length, 0) = Bob Jenkins' hashlittle() of lookup3.c.
// refHashLittle is a direct transcription of the byte-wise (non-aligned) path of hashlittle().

import (
	"fmt"
	"testing"
)

func refRot(x uint32, k uint) uint32 { return (x << k) | (x >> (32 - k)) }

func refMix(a, b, c uint32) (uint32, uint32, uint32) {
	a -= c
	a ^= refRot(c, 4)
	c += b
	b -= a
	b ^= refRot(a, 6)
	a += c
	c -= b
	c ^= refRot(b, 8)
	b += a
	a -= c
	a ^= refRot(c, 16)
	c += b
	b -= a
	b ^= refRot(a, 19)
	a += c
	c -= b
	c ^= refRot(b, 4)
	b += a
	return a, b, c
}

func refFinal(a, b, c uint32) (uint32, uint32, uint32) {
	c ^= b
	c -= refRot(b, 14)
	a ^= c
	a -= refRot(c, 11)
	b ^= a
	b -= refRot(a, 25)
	c ^= b
	c -= refRot(b, 16)
	a ^= c
	a -= refRot(c, 4)
	b ^= a
	b -= refRot(a, 14)
	c ^= b
	c -= refRot(b, 24)
	return a, b, c
}

// refHashLittle is lookup3.c hashlittle(key, length, initval), byte-wise path.
func refHashLittle(k []byte, initval uint32) uint32 {
	length := len(k)
	a := 0xdeadbeef + uint32(length) + initval
	b, c := a, a
	for length > 12 {
		a += uint32(k[0]) + uint32(k[1])<<8 + uint32(k[2])<<16 + uint32(k[3])<<24
		b += uint32(k[4]) + uint32(k[5])<<8 + uint32(k[6])<<16 + uint32(k[7])<<24
		c += uint32(k[8]) + uint32(k[9])<<8 + uint32(k[10])<<16 + uint32(k[11])<<24
		a, b, c = refMix(a, b, c)
		length -= 12
		k = k[12:]
	}
	switch length { // all the case statements fall through
	case 12:
		c += uint32(k[11]) << 24
		fallthrough
	case 11:
		c += uint32(k[10]) << 16
		fallthrough
	case 10:
		c += uint32(k[9]) << 8
		fallthrough
	case 9:
		c += uint32(k[8])
		fallthrough
	case 8:
		b += uint32(k[7]) << 24
		fallthrough
	case 7:
		b += uint32(k[6]) << 16
		fallthrough
	case 6:
		b += uint32(k[5]) << 8
		fallthrough
	case 5:
		b += uint32(k[4])
		fallthrough
	case 4:
		a += uint32(k[3]) << 24
		fallthrough
	case 3:
		a += uint32(k[2]) << 16
		fallthrough
	case 2:
		a += uint32(k[1]) << 8
		fallthrough
	case 1:
		a += uint32(k[0])
	case 0:
		return c
	}
	_, _, c = refFinal(a, b, c)
	return c
}

func TestJenkinsHashIsLookup3(t *testing.T) {
	// published self-check of lookup3.c (driver5): hashlittle("Four score and seven years ago", 30, 0) = 0x17770551,
	// and with initval 1: 0xcd628161.
	const four = "Four score and seven years ago"
	if h := refHashLittle([]byte(four), 0); h != 0x17770551 {
		t.Fatalf("reference transcription is wrong: %#x", h)
	}
	if h := refHashLittle([]byte(four), 1); h != 0xcd628161 {
		t.Fatalf("reference transcription is wrong (initval 1): %#x", h)
	}
	if h := jenkinsHash(four); h != 0x17770551 {
		t.Errorf("jenkinsHash(%q) = %#x, want 0x17770551", four, h)
	}
	const src = "attribute_name_0123456789_abcdefghijklmnopqrstuvwxyz_ABCDEFGHIJKLMNOPQRSTUVWXYZ"
	var bad []int
	for n := 0; n <= 60; n++ {
		s := src[:n]
		got, want := jenkinsHash(s), refHashLittle([]byte(s), 0)
		if got != want {
			bad = append(bad, n)
			t.Errorf("len %2d: jenkinsHash(%q) = %#08x, lookup3 hashlittle = %#08x", n, s, got, want)
		}
	}
	if len(bad) > 0 {
		t.Errorf("jenkinsHash differs from lookup3 for lengths %s", fmt.Sprint(bad))
	}
}
