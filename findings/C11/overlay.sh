#!/bin/bash
d=$(mktemp -d); trap "rm -rf $d" EXIT
echo "{\"Replace\":{\"/repo/internal/core/zz_codecs_replay_test.go\":\"/verif/findings/C11/zz_codecs_replay_test.go\"}}" > $d/ov.json
cd /repo/internal/core && go test -overlay $d/ov.json -vet=off -count=1 -run 'TestReplay' -v . 2>&1 | grep -v "^=== RUN" | tail -20
