package main

// Frame conditions: `assigns` clauses.

import (
	"fmt"
	"go/token"
	"go/types"
	"strings"
)

type assignItem struct {
	src   string
	comps map[string]string // component name -> component sort
	leaf  map[string]string // component name -> sort of the value stored per reference
	ref   Term
	onResult bool
	lo, hi *Term // absolute element index range [lo,hi) for x[a:b] items (nil = whole array)
	guard *Term  // the item designates memory only if this holds (every pointer dereferenced on the way is non-nil, the slice is non-nil)
}

func mentionsResult(e *SExpr) bool {
	if e == nil {
		return false
	}
	if e.Op == "id" && (e.Name == "result" || strings.HasPrefix(e.Name, "result") || e.Name == "err") {
		return true
	}
	for _, a := range e.Args {
		if mentionsResult(a) {
			return true
		}
	}
	return false
}

// evalAssignItem evaluates an assigns item in scope sc.
func (sc *Scope) evalAssignItem(cl *Clause) (*assignItem, error) {
	e := cl.E
	it := &assignItem{src: cl.Src, comps: map[string]string{}, leaf: map[string]string{}}
	addLV := func(lv *LV) {
		for _, l := range leavesOf(lv.T) {
			n, s := compFor(lv, l)
			it.comps[n] = s
			_, es := arrParts(s)
			it.leaf[n] = es
		}
		it.ref = lv.Ref
	}
	switch {
	case e.Op == "call" && e.Name == "ghost" && len(e.Args) == 1:
		x := sc.eval(e.Args[0])
		if sc.err != nil {
			return nil, sc.err
		}
		if x.v == nil || len(x.v.L) == 0 {
			return nil, fmt.Errorf("assigns %s: not an object value", cl.Src)
		}
		ref := x.v.L[0]
		if isInterface(x.v.T) {
			ref = x.v.L[1]
		}
		it.comps["GHOST"] = fileCompSort()
		it.leaf["GHOST"] = SArr(SIdx, SBV(8))
		it.ref = ref
		it.onResult = false
		return it, nil
	case e.Op == "call" && e.Name == "file" && len(e.Args) == 1:
		x := sc.eval(e.Args[0])
		if sc.err != nil {
			return nil, sc.err
		}
		if x.v == nil || len(x.v.L) == 0 {
			return nil, fmt.Errorf("assigns %s: not a reader/writer value", cl.Src)
		}
		ref := x.v.L[0]
		if isInterface(x.v.T) {
			ref = x.v.L[1]
		}
		it.comps["FILE"] = fileCompSort()
		it.leaf["FILE"] = SArr(SIdx, SBV(8))
		it.ref = ref
		it.onResult = false
		return it, nil
	}
	switch e.Op {
	case "elems":
		x := sc.eval(e.Args[0])
		if sc.err != nil {
			return nil, sc.err
		}
		v := x.v
		if v == nil || !isSlice(v.T) {
			return nil, fmt.Errorf("assigns %s: not a slice", cl.Src)
		}
		bk := v.backing()
		root := &LV{Root: bk.Root, Ref: bk.Ref, Steps: nil, T: types.NewArray(sliceElem(v.T), 1)}
		if len(bk.Steps) > 0 {
			// slice of an array stored inside another object: the whole containing leaf may change
			root = &LV{Root: bk.Root, Ref: bk.Ref, Steps: bk.Steps, T: bk.T}
		}
		addLV(root)
	case "slice":
		x := sc.eval(e.Args[0])
		if sc.err != nil {
			return nil, sc.err
		}
		v := x.v
		if v == nil || !isSlice(v.T) {
			return nil, fmt.Errorf("assigns %s: not a slice", cl.Src)
		}
		bk := v.backing()
		if len(bk.Steps) > 0 {
			return nil, fmt.Errorf("assigns %s: range items on nested arrays are not supported", cl.Src)
		}
		addLV(&LV{Root: bk.Root, Ref: bk.Ref, T: types.NewArray(sliceElem(v.T), 1)})
		lo := v.sOff()
		if e.Args[1] != nil {
			lo = app(SIdx, "bvadd", v.sOff(), sc.toIdx(sc.eval(e.Args[1])))
		}
		hi := app(SIdx, "bvadd", v.sOff(), v.sLen())
		if e.Args[2] != nil {
			hi = app(SIdx, "bvadd", v.sOff(), sc.toIdx(sc.eval(e.Args[2])))
		}
		if sc.err != nil {
			return nil, sc.err
		}
		it.lo, it.hi = &lo, &hi
	case "fields":
		x := sc.eval(e.Args[0])
		if sc.err != nil {
			return nil, sc.err
		}
		if x.v == nil || !isPointer(x.v.T) {
			return nil, fmt.Errorf("assigns %s: not a pointer", cl.Src)
		}
		addLV(x.v.loc())
	case "sel":
		x := sc.eval(e.Args[0])
		if sc.err != nil {
			return nil, sc.err
		}
		if x.v == nil || !isPointer(x.v.T) {
			return nil, fmt.Errorf("assigns %s: base is not a pointer", cl.Src)
		}
		lv := x.v.loc()
		st, ok := lv.T.Underlying().(*types.Struct)
		if !ok {
			return nil, fmt.Errorf("assigns %s: base is not a struct pointer", cl.Src)
		}
		i := fieldIndex(st, e.Name)
		if i < 0 {
			return nil, fmt.Errorf("assigns %s: no such field", cl.Src)
		}
		addLV(lv.extend(Step{Field: e.Name}, st.Field(i).Type()))
	default:
		return nil, fmt.Errorf("assigns %s: unsupported location form", cl.Src)
	}
	it.onResult = mentionsResult(e)
	// an item reached through a nil pointer (e.g. result0.Dims[*] when result0 == nil) or naming the elements of a
	// nil slice designates no memory
	var guards []Term
	var walk func(x *SExpr)
	walk = func(x *SExpr) {
		if x == nil {
			return
		}
		if x.Op == "sel" || x.Op == "fields" {
			b := sc.eval(x.Args[0])
			if sc.err == nil && b.v != nil && isPointer(b.v.T) && len(b.v.L) == 1 {
				guards = append(guards, mkNot(mkEq(b.v.L[0], intConst(0))))
			}
		}
		for _, a := range x.Args {
			walk(a)
		}
	}
	walk(e)
	if sc.err != nil {
		return nil, sc.err
	}
	if e.Op == "elems" || e.Op == "slice" {
		guards = append(guards, mkNot(mkEq(it.ref, intConst(0))))
	}
	if len(guards) > 0 {
		g := mkAnd(guards...)
		it.guard = &g
	}
	return it, nil
}

// frameCheck: a write to components `comps` at reference ref must be permitted by the assigns clause
// of the function being verified (or target memory allocated during this call).
func (fr *frame) frameCheck(comps []string, ref Term, what string, pos token.Pos) {
	fr.frameCheckRange(comps, ref, nil, nil, what, pos)
}

// frameCheckRange: as frameCheck, for a write to absolute element indices [lo,hi) (nil = unknown/whole array).
func (fr *frame) frameCheckRange(comps []string, ref Term, lo, hi *Term, what string, pos token.Pos) {
	ft := fr.ft
	if ft.topCon == nil || !ft.topCon.HasAssigns || ft.fn == nil {
		return
	}
	fresh := app(SBool, ">", ref, intConst(allocBase))
	var goals []Term
	for _, c := range comps {
		alts := []Term{fresh}
		for _, it := range ft.assignItems {
			if _, ok := it.comps[c]; ok {
				m := mkEq(ref, it.ref)
				if it.lo != nil {
					if lo == nil {
						continue // write of unknown extent cannot be justified by a range item
					}
					m = mkAnd(m, mkOr(mkEq(*lo, *hi), mkAnd(app(SBool, "bvule", *it.lo, *lo), app(SBool, "bvule", *hi, *it.hi), app(SBool, "bvule", *lo, *hi))))
				}
				alts = append(alts, m)
			}
		}
		goals = append(goals, mkOr(alts...))
	}
	g := mkAnd(goals...)
	if g.T == "true" {
		return
	}
	fr.oblige("frame", what, pos, g)
}

// applyAssigns havocs exactly the listed locations (call site of a callee with an assigns clause).
func (fr *frame) applyAssigns(items []*assignItem) {
	ft := fr.ft
	for _, it := range items {
		for c, s := range it.comps {
			arr := ft.memGet(fr.cur.mem, c, s)
			nv := ft.c.Fresh("asg$"+c, it.leaf[c])
			if it.lo != nil && isArr(it.leaf[c]) {
				// only [lo,hi) may change
				old := mkSelect(arr, it.ref)
				j := ft.c.BoundVar("j")
				jt := Term{SIdx, j}
				ft.c.Assume(nv, ft.c.Quant(false, j, SIdx, mkImp(mkOr(app(SBool, "bvslt", jt, *it.lo), app(SBool, "bvsge", jt, *it.hi)),
					mkEq(mkSelect(nv, jt), mkSelect(old, jt)))))
			}
			upd := mkStore(arr, it.ref, nv)
			if it.guard != nil {
				upd = mkIte(*it.guard, upd, arr)
			}
			fr.cur.mem.m[c] = ft.c.Define("m$"+c, upd)
			fr.checkLoopMod(c)
		}
	}
}

// ---------------------------------------------------------------------------
// Fail-stop ghost state (property C17): for every call that can fail, a ghost flag records "this call failed on
// the current path". At every return of a function whose last result is an error, a raised flag obliges the
// returned error to be non-nil; a raised flag may not be carried around a loop back edge (the classic
// `if err != nil { continue }`).

func failSort() string { return SArr(SInt, SBool) }

func (fr *frame) failFlagGet(mem *Mem, site string) Term {
	if mem == nil {
		return tFalse
	}
	if t, ok := mem.m["$F:"+site]; ok {
		return mkSelect(t, intConst(0))
	}
	return tFalse
}

func (fr *frame) failFlagRaise(site string, cond Term) {
	ft := fr.ft
	if !ft.kinds["failstop"] {
		return
	}
	cur := fr.failFlagGet(fr.cur.mem, site)
	nv := ft.c.Define("fail", mkOr(cur, cond))
	fr.cur.mem.m["$F:"+site] = ft.c.Define("m$F", mkStore(constArr(failSort(), tFalse), intConst(0), nv))
}

// noteFailure registers the failure condition of a call site.
func (fr *frame) noteFailure(text string, pos token.Pos, cond Term) {
	ft := fr.ft
	if !ft.kinds["failstop"] || cond.T == "false" {
		return
	}
	if ft.failText == nil {
		ft.failText = map[string]string{}
	}
	base := text
	if fr.inl != "" {
		base = fr.inl + "/" + text
	}
	k := ft.names["$F:"+base]
	ft.names["$F:"+base] = k + 1
	site := fmt.Sprintf("%s#%d", base, k)
	ft.failSites = append(ft.failSites, site)
	ft.failText[site] = base
	fr.failFlagRaise(site, cond)
}

// failstopAtReturn: obligations at a return site of the function under verification.
func (fr *frame) failstopAtReturn(rs retSite, errNonNil Term) {
	ft := fr.ft
	for _, site := range ft.failSites {
		fl := fr.failFlagGet(rs.mem, site)
		if fl.T == "false" {
			continue
		}
		fr.obligeAt(mkAnd(rs.pc, fl), "failstop", ft.failText[site], rs.pos, errNonNil)
	}
}

// failstopAtBackEdge: a failure may not be carried into the next loop iteration.
func (fr *frame) failstopAtBackEdge(hyp Term, mem *Mem, li *loopInfo, pos token.Pos) {
	ft := fr.ft
	if !ft.kinds["failstop"] {
		return
	}
	for _, site := range ft.failSites {
		fl := fr.failFlagGet(mem, site)
		if fl.T == "false" {
			continue
		}
		// only flags raised inside this loop iteration matter: the flag value at the loop head is the entry value
		hd := fr.failFlagGet(fr.loopEntryMem[li], site)
		fr.obligeAt(mkAnd(hyp, mkNot(hd)), "failstop", ft.failText[site]+" (error ignored, loop continues)", pos, mkNot(fl))
	}
}
