#!/bin/bash
export PATH=/opt/veriftools/go1.26.8/bin:$PATH GOFLAGS=-mod=mod GOPROXY=off GOTOOLCHAIN=local
d=$(mktemp -d); trap "rm -rf $d" EXIT
echo "{\"Replace\":{\"/repo/internal/structures/zz_fhpersist_replay_test.go\":\"/verif/findings/C15/zz_fhpersist_replay_test.go\"}}" > $d/ov.json
cd /repo/internal/structures && go test -overlay $d/ov.json -vet=off -count=1 -run 'TestFHPersist' -v . 2>&1 | grep -E "REPRODUCED|^--- |^ok|FAIL" | cut -c1-200
