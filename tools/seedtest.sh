#!/bin/bash
# usage: tools/seedtest.sh <seed-id> <command...>   — applies a seeded change to /repo, runs the command, reverts the change.
id=$1; shift
git -C /repo diff --quiet || { echo "repo has uncommitted changes; commit them first"; exit 2; }
git -C /repo apply /verif/seeded/$id/patch.diff || exit 2
"$@"
rc=$?
git -C /repo apply -R /verif/seeded/$id/patch.diff
exit $rc
