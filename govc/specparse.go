package main

// Parser for the contract expression language (Go-like expressions extended with
// old(), forall/exists, ==>, <==>).

import (
	"fmt"
	"strings"
	"unicode"
)

type SExpr struct {
	Op   string // id int str bool nil sel idx slice call old forall exists unop binop conv
	Name string // identifier / field / operator / function name
	Args []*SExpr
	BT   string // binder type for forall/exists
	Pos  int
}

func (e *SExpr) String() string {
	switch e.Op {
	case "id", "int", "bool", "nil":
		return e.Name
	case "str":
		return fmt.Sprintf("%q", e.Name)
	case "sel":
		return e.Args[0].String() + "." + e.Name
	case "idx":
		return e.Args[0].String() + "[" + e.Args[1].String() + "]"
	case "slice":
		lo, hi := "", ""
		if e.Args[1] != nil {
			lo = e.Args[1].String()
		}
		if e.Args[2] != nil {
			hi = e.Args[2].String()
		}
		return e.Args[0].String() + "[" + lo + ":" + hi + "]"
	case "call":
		var as []string
		for _, a := range e.Args {
			as = append(as, a.String())
		}
		return e.Name + "(" + strings.Join(as, ", ") + ")"
	case "old":
		return "old(" + e.Args[0].String() + ")"
	case "elems":
		return e.Args[0].String() + "[*]"
	case "fields":
		return e.Args[0].String() + ".*"
	case "forall", "exists":
		return "(" + e.Op + " " + e.Name + " " + e.BT + " :: " + e.Args[0].String() + ")"
	case "unop":
		return e.Name + e.Args[0].String()
	case "binop":
		return "(" + e.Args[0].String() + " " + e.Name + " " + e.Args[1].String() + ")"
	case "ite":
		return "(" + e.Args[0].String() + " ? " + e.Args[1].String() + " : " + e.Args[2].String() + ")"
	}
	return "?" + e.Op
}

type stok struct {
	k string // id int str op eof
	v string
	p int
}

func slex(s string) ([]stok, error) {
	var out []stok
	i := 0
	ops := []string{"<==>", "==>", "<<", ">>", "&^", "&&", "||", "==", "!=", "<=", ">=", "::", "++"}
	for i < len(s) {
		c := s[i]
		switch {
		case c == ' ' || c == '\t' || c == '\n':
			i++
		case unicode.IsLetter(rune(c)) || c == '_':
			j := i
			for j < len(s) && (unicode.IsLetter(rune(s[j])) || unicode.IsDigit(rune(s[j])) || s[j] == '_') {
				j++
			}
			out = append(out, stok{"id", s[i:j], i})
			i = j
		case c >= '0' && c <= '9':
			j := i
			for j < len(s) && (unicode.IsDigit(rune(s[j])) || unicode.IsLetter(rune(s[j])) || s[j] == '_') {
				j++
			}
			out = append(out, stok{"int", strings.ReplaceAll(s[i:j], "_", ""), i})
			i = j
		case c == '"':
			j := i + 1
			var sb strings.Builder
			for j < len(s) && s[j] != '"' {
				if s[j] == '\\' && j+1 < len(s) {
					j++
					switch s[j] {
					case 'n':
						sb.WriteByte('\n')
					case '0':
						sb.WriteByte(0)
					case 'x':
						if j+2 < len(s) {
							var b byte
							fmt.Sscanf(s[j+1:j+3], "%02x", &b)
							sb.WriteByte(b)
							j += 2
						}
					default:
						sb.WriteByte(s[j])
					}
				} else {
					sb.WriteByte(s[j])
				}
				j++
			}
			if j >= len(s) {
				return nil, fmt.Errorf("unterminated string at %d", i)
			}
			out = append(out, stok{"str", sb.String(), i})
			i = j + 1
		default:
			matched := false
			for _, op := range ops {
				if strings.HasPrefix(s[i:], op) {
					out = append(out, stok{"op", op, i})
					i += len(op)
					matched = true
					break
				}
			}
			if !matched {
				if strings.ContainsRune("+-*/%&|^<>!()[]{}.,:?", rune(c)) {
					out = append(out, stok{"op", string(c), i})
					i++
				} else {
					return nil, fmt.Errorf("unexpected character %q at %d", c, i)
				}
			}
		}
	}
	out = append(out, stok{"eof", "", len(s)})
	return out, nil
}

type sparser struct {
	t []stok
	i int
	s string
}

func parseSpec(s string) (*SExpr, error) {
	toks, err := slex(s)
	if err != nil {
		return nil, err
	}
	p := &sparser{t: toks, s: s}
	e, err := p.expr(0)
	if err != nil {
		return nil, err
	}
	if p.peek().k != "eof" {
		return nil, fmt.Errorf("unexpected %q at %d in %q", p.peek().v, p.peek().p, s)
	}
	return e, nil
}

func (p *sparser) peek() stok { return p.t[p.i] }
func (p *sparser) next() stok { t := p.t[p.i]; p.i++; return t }
func (p *sparser) isOp(v string) bool {
	return p.peek().k == "op" && p.peek().v == v
}
func (p *sparser) expect(v string) error {
	if !p.isOp(v) {
		return fmt.Errorf("expected %q at %d, got %q in %q", v, p.peek().p, p.peek().v, p.s)
	}
	p.i++
	return nil
}

var sprec = map[string]int{
	"<==>": 1, "==>": 2, "||": 3, "&&": 4,
	"==": 5, "!=": 5, "<": 5, "<=": 5, ">": 5, ">=": 5,
	"+": 6, "-": 6, "|": 6, "^": 6,
	"*": 7, "/": 7, "%": 7, "<<": 7, ">>": 7, "&": 7, "&^": 7,
}

func (p *sparser) expr(minPrec int) (*SExpr, error) {
	lhs, err := p.unary()
	if err != nil {
		return nil, err
	}
	for {
		t := p.peek()
		if t.k != "op" {
			break
		}
		pr, ok := sprec[t.v]
		if !ok || pr < minPrec {
			break
		}
		p.next()
		var rhs *SExpr
		if t.v == "==>" {
			rhs, err = p.expr(pr) // right assoc
		} else {
			rhs, err = p.expr(pr + 1)
		}
		if err != nil {
			return nil, err
		}
		lhs = &SExpr{Op: "binop", Name: t.v, Args: []*SExpr{lhs, rhs}, Pos: t.p}
	}
	if minPrec == 0 && p.isOp("?") {
		p.next()
		a, err := p.expr(0)
		if err != nil {
			return nil, err
		}
		if err := p.expect(":"); err != nil {
			return nil, err
		}
		b, err := p.expr(0)
		if err != nil {
			return nil, err
		}
		lhs = &SExpr{Op: "ite", Args: []*SExpr{lhs, a, b}}
	}
	return lhs, nil
}

func (p *sparser) unary() (*SExpr, error) {
	t := p.peek()
	if t.k == "op" && (t.v == "!" || t.v == "-" || t.v == "^") {
		p.next()
		x, err := p.unary()
		if err != nil {
			return nil, err
		}
		return &SExpr{Op: "unop", Name: t.v, Args: []*SExpr{x}, Pos: t.p}, nil
	}
	return p.postfix()
}

func (p *sparser) postfix() (*SExpr, error) {
	x, err := p.primary()
	if err != nil {
		return nil, err
	}
	for {
		switch {
		case p.isOp("."):
			p.next()
			if p.isOp("*") {
				p.next()
				x = &SExpr{Op: "fields", Args: []*SExpr{x}}
				continue
			}
			id := p.next()
			if id.k != "id" {
				return nil, fmt.Errorf("expected field name at %d in %q", id.p, p.s)
			}
			// method-like call pkg.fn(...) or x.f(...)
			if p.isOp("(") {
				p.next()
				args, err := p.args(")")
				if err != nil {
					return nil, err
				}
				if x.Op == "id" {
					x = &SExpr{Op: "call", Name: x.Name + "." + id.v, Args: args, Pos: id.p}
				} else {
					x = &SExpr{Op: "call", Name: "." + id.v, Args: append([]*SExpr{x}, args...), Pos: id.p}
				}
				continue
			}
			x = &SExpr{Op: "sel", Name: id.v, Args: []*SExpr{x}, Pos: id.p}
		case p.isOp("["):
			p.next()
			if p.isOp("*") {
				p.next()
				if err := p.expect("]"); err != nil {
					return nil, err
				}
				x = &SExpr{Op: "elems", Args: []*SExpr{x}}
				continue
			}
			var lo, hi *SExpr
			if !p.isOp(":") {
				lo, err = p.expr(0)
				if err != nil {
					return nil, err
				}
			}
			if p.isOp(":") {
				p.next()
				if !p.isOp("]") {
					hi, err = p.expr(0)
					if err != nil {
						return nil, err
					}
				}
				if err := p.expect("]"); err != nil {
					return nil, err
				}
				x = &SExpr{Op: "slice", Args: []*SExpr{x, lo, hi}}
			} else {
				if err := p.expect("]"); err != nil {
					return nil, err
				}
				x = &SExpr{Op: "idx", Args: []*SExpr{x, lo}}
			}
		default:
			return x, nil
		}
	}
}

func (p *sparser) args(close string) ([]*SExpr, error) {
	var out []*SExpr
	if p.isOp(close) {
		p.next()
		return out, nil
	}
	for {
		a, err := p.expr(0)
		if err != nil {
			return nil, err
		}
		out = append(out, a)
		if p.isOp(",") {
			p.next()
			continue
		}
		if err := p.expect(close); err != nil {
			return nil, err
		}
		return out, nil
	}
}

func (p *sparser) primary() (*SExpr, error) {
	t := p.next()
	switch t.k {
	case "int":
		return &SExpr{Op: "int", Name: t.v, Pos: t.p}, nil
	case "str":
		return &SExpr{Op: "str", Name: t.v, Pos: t.p}, nil
	case "id":
		switch t.v {
		case "true", "false":
			return &SExpr{Op: "bool", Name: t.v, Pos: t.p}, nil
		case "nil":
			return &SExpr{Op: "nil", Name: "nil", Pos: t.p}, nil
		case "forall", "exists":
			var vs, tys []string
			for {
				v := p.next()
				if v.k != "id" {
					return nil, fmt.Errorf("expected bound variable at %d in %q", v.p, p.s)
				}
				ty := p.next()
				if ty.k != "id" {
					return nil, fmt.Errorf("expected binder type at %d in %q", ty.p, p.s)
				}
				vs = append(vs, v.v)
				tys = append(tys, ty.v)
				if p.isOp(",") {
					p.next()
					continue
				}
				break
			}
			v := stok{v: strings.Join(vs, ",")}
			ty := stok{v: strings.Join(tys, ",")}
			if err := p.expect("::"); err != nil {
				return nil, err
			}
			body, err := p.expr(0)
			if err != nil {
				return nil, err
			}
			return &SExpr{Op: t.v, Name: v.v, BT: ty.v, Args: []*SExpr{body}, Pos: t.p}, nil
		case "old":
			if err := p.expect("("); err != nil {
				return nil, err
			}
			x, err := p.expr(0)
			if err != nil {
				return nil, err
			}
			if err := p.expect(")"); err != nil {
				return nil, err
			}
			return &SExpr{Op: "old", Args: []*SExpr{x}, Pos: t.p}, nil
		}
		if p.isOp("(") {
			p.next()
			args, err := p.args(")")
			if err != nil {
				return nil, err
			}
			return &SExpr{Op: "call", Name: t.v, Args: args, Pos: t.p}, nil
		}
		return &SExpr{Op: "id", Name: t.v, Pos: t.p}, nil
	case "op":
		if t.v == "(" {
			x, err := p.expr(0)
			if err != nil {
				return nil, err
			}
			if err := p.expect(")"); err != nil {
				return nil, err
			}
			return x, nil
		}
	}
	return nil, fmt.Errorf("unexpected token %q at %d in %q", t.v, t.p, p.s)
}
