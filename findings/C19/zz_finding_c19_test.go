package rebalancing

// Demonstrations for known findings of property C19 (inject with go test -overlay into internal/rebalancing).

import (
	"math"
	"testing"
)

// rebalancing.(SafetyConstraints).Validate#post#result == nil ==> 0 <= s.MinConfidence && s.MinConfidence <= 1
func TestFindingC19_ValidateAcceptsNaNMinConfidence(t *testing.T) {
	c := DefaultSafetyConstraints()
	c.MinConfidence = math.NaN()
	if err := c.Validate(); err == nil {
		t.Errorf("FINDING: Validate accepts MinConfidence = NaN; the confidence gate `c < MinConfidence` is then never taken")
	}
}

// rebalancing.(*RuleBasedStrategy).normalizeOperationRate#post#0 <= result && result <= 1
func TestFindingC19_NormalizeOperationRateOutOfRange(t *testing.T) {
	s := &RuleBasedStrategy{}
	for _, r := range []float64{-1, math.NaN()} {
		v := s.normalizeOperationRate(r)
		if !(v >= 0 && v <= 1) {
			t.Errorf("FINDING: normalizeOperationRate(%v) = %v, outside the documented [0,1]", r, v)
		}
	}
}
