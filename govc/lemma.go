package main

// Lemma blocks: small ghost programs over real functions.
//   vars x T, ...            universally quantified inputs (fresh symbolic values)
//   requires E               assumption
//   let a, b := f(args)      call of a real function: by contract if it has one, otherwise its real body is inlined
//   ensures E                proof obligation (kind lemma)

import (
	"fmt"
	"go/token"
	"go/types"
	"strings"

	"golang.org/x/tools/go/ssa"
)

func (e *Env) pkgByName(name string) *types.Package {
	for _, p := range e.pkgs {
		if p.Types != nil && p.Types.Name() == name && strings.HasPrefix(p.PkgPath, e.modPath) {
			return p.Types
		}
	}
	return nil
}

func (e *Env) verifyLemma(lm *Lemma) (res *FuncResult) {
	ft := &FT{e: e, c: NewCtx(), memSyms: map[string]Term{}, partial: map[string]bool{}, names: map[string]int{}, kinds: map[string]bool{"*": true}, label: lm.Name}
	res = &FuncResult{Func: lm.Name, Ctx: ft.c, HasContract: true}
	defer func() {
		if r := recover(); r != nil {
			res.Fatal = fmt.Sprintf("translator panic in lemma: %v", r)
			res.Obs = nil
		}
	}()
	ft.c.Preamble = append(ft.c.Preamble, e.smtPre...)
	if gInt {
		ft.c.addPre("intmode", intModePreamble)
	}
	ft.topCon = &Contract{Reveal: lm.Reveal}
	pkg := e.pkgByName(lm.Pkg)
	if pkg == nil {
		res.Fatal = "unknown package " + lm.Pkg
		return res
	}
	fr := &frame{ft: ft, vals: map[ssa.Value]*Val{}, dbg: map[types.Object][]ssa.Value{}, lemPkg: pkg}
	mem := newMem()
	ft.entryMem = mem.clone()
	fr.oldMem = ft.entryMem
	fr.cur = &bstate{pc: tTrue, mem: mem}
	vars := map[string]*sv{}
	scope := func() *Scope {
		return &Scope{fr: fr, mem: fr.cur.mem, old: ft.entryMem, vars: vars, pkg: pkg}
	}
	for _, v := range lm.Vars {
		t := scope().typeByName(v.Type)
		if t == nil {
			res.Fatal = fmt.Sprintf("%s:%d: unknown type %s", lm.File, lm.Line, v.Type)
			return res
		}
		val := ft.freshInput("v$"+v.Name, t)
		vars[v.Name] = &sv{v: val}
		for i, l := range leavesOf(t) {
			res.Params = append(res.Params, ModelVar{Label: v.Name + l.Path, Term: val.L[i], Needs: []string{val.L[i].T}})
		}
	}
	// case splits: list of (label, condition)
	type splitCase struct {
		label string
		cond  Term
	}
	cases := []splitCase{{"", tTrue}}
	for _, sp := range lm.Splits {
		f := strings.Fields(sp)
		var next []splitCase
		switch {
		case len(f) == 1:
			v, ok := vars[f[0]]
			if !ok || len(v.v.L) != 1 || bvWidth(v.v.L[0].S) != 8 {
				res.Fatal = fmt.Sprintf("%s:%d: split %s: need an 8-bit variable", lm.File, lm.Line, sp)
				return res
			}
			for _, c := range cases {
				for k := 0; k < 256; k++ {
					next = append(next, splitCase{fmt.Sprintf("%s[%s=0x%02x]", c.label, f[0], k), mkAnd(c.cond, mkEq(v.v.L[0], bvInt(8, int64(k))))})
				}
			}
		case len(f) == 2 && f[0] == "exp":
			v, ok := vars[f[1]]
			if !ok || len(v.v.L) != 1 || v.v.L[0].S != SF32 {
				res.Fatal = fmt.Sprintf("%s:%d: split %s: need a float32 variable", lm.File, lm.Line, sp)
				return res
			}
			// f = to_fp(bits) for a fresh bit pattern; classes by biased exponent field
			bits := ft.c.Fresh("fbits$"+f[1], SBV(32))
			ft.c.Assume(bits, mkEq(Term{SF32, "((_ to_fp 8 24) " + bits.T + ")"}, v.v.L[0]))
			v.v.Bits = &bits
			res.Params = append(res.Params, ModelVar{Label: f[1] + "#bits", Term: bits, Needs: []string{bits.T}})
			for _, c := range cases {
				for k := 0; k < 256; k++ {
					ex := Term{SBV(8), "((_ extract 30 23) " + bits.T + ")"}
					next = append(next, splitCase{fmt.Sprintf("%s[exp(%s)=%d]", c.label, f[1], k), mkAnd(c.cond, mkEq(ex, bvInt(8, int64(k))))})
				}
			}
		case len(f) >= 3 && f[len(f)-2] == "upto":
			// split <expr> upto N : cases expr == 0 .. expr == N (expr evaluated in the entry state)
			var n int
			fmt.Sscanf(f[len(f)-1], "%d", &n)
			src := strings.Join(f[:len(f)-2], " ")
			ex, err := parseSpec(src)
			if err != nil {
				res.Fatal = fmt.Sprintf("%s:%d: split: %v", lm.File, lm.Line, err)
				return res
			}
			sc := scope()
			x := sc.eval(ex)
			if sc.err != nil || x.v == nil || len(x.v.L) != 1 {
				res.Fatal = fmt.Sprintf("%s:%d: split %s: %v", lm.File, lm.Line, src, sc.err)
				return res
			}
			w, _, ok := isIntType(x.v.T)
			if !ok {
				res.Fatal = fmt.Sprintf("%s:%d: split %s: not an integer", lm.File, lm.Line, src)
				return res
			}
			tm := ft.c.Define("splitv", x.v.L[0])
			for _, c := range cases {
				for k := 0; k <= n; k++ {
					next = append(next, splitCase{fmt.Sprintf("%s[%s=%d]", c.label, src, k), mkAnd(c.cond, mkEq(tm, bvInt(w, int64(k))))})
				}
			}
		default:
			res.Fatal = fmt.Sprintf("%s:%d: malformed split %q", lm.File, lm.Line, sp)
			return res
		}
		cases = next
	}
	for _, st := range lm.Steps {
		sc := scope()
		switch st.Kind {
		case "requires":
			t := sc.evalBool(st.C.E)
			if sc.err != nil {
				res.Fatal = fmt.Sprintf("%s:%d: %v", st.C.File, st.C.Line, sc.err)
				return res
			}
			fr.assume(t)
		case "ensures":
			t := sc.evalBool(st.C.E)
			if sc.err != nil {
				res.Fatal = fmt.Sprintf("%s:%d: %v", st.C.File, st.C.Line, sc.err)
				return res
			}
			for _, c := range cases {
				fr.obligeAt(mkAnd(fr.cur.pc, c.cond), "lemma", shortText(st.C.Src)+c.label, token.NoPos, t)
			}
		case "let":
			ex := st.C.E
			if ex.Op != "call" {
				res.Fatal = fmt.Sprintf("%s:%d: let expects a call", st.C.File, st.C.Line)
				return res
			}
			var args []*Val
			var callee *ssa.Function
			argExprs := ex.Args
			if i := strings.Index(ex.Name, "."); i > 0 {
				if _, isVar := vars[ex.Name[:i]]; isVar {
					// x.M(args): method call on a lemma variable
					argExprs = append([]*SExpr{{Op: "id", Name: ex.Name[:i]}}, argExprs...)
					ex = &SExpr{Op: "call", Name: ex.Name[i:], Args: argExprs}
				}
			}
			if strings.HasPrefix(ex.Name, ".") {
				// method call: first arg is the receiver
				recv := sc.eval(argExprs[0])
				if sc.err != nil || recv.v == nil {
					res.Fatal = fmt.Sprintf("%s:%d: receiver: %v", st.C.File, st.C.Line, sc.err)
					return res
				}
				callee = e.methodOf(recv.v.T, ex.Name[1:])
			} else {
				name := ex.Name
				if !strings.Contains(name, ".") {
					name = lm.Pkg + "." + name
				}
				callee = e.funcs[name]
			}
			if callee == nil {
				res.Fatal = fmt.Sprintf("%s:%d: unknown function %s", st.C.File, st.C.Line, ex.Name)
				return res
			}
			for i, a := range argExprs {
				x := sc.eval(a)
				if sc.err != nil {
					res.Fatal = fmt.Sprintf("%s:%d: argument: %v", st.C.File, st.C.Line, sc.err)
					return res
				}
				if i < len(callee.Params) {
					args = append(args, sc.typed(x, callee.Params[i].Type()))
				}
			}
			var out *Val
			rt := callee.Signature.Results()
			fr.inl = "" // obligations inside inlined bodies are attributed to the lemma
			if con := e.contractOf(callee); con != nil && len(con.Ensures) > 0 && !con.InlineOnly {
				fakeCall := &ssa.CallCommon{Value: callee}
				out = fr.callByContract(con, callee, fakeCall, args, rt, token.NoPos)
			} else {
				sub := &frame{ft: ft, fn: callee, depth: 1, vals: map[ssa.Value]*Val{}, dbg: map[types.Object][]ssa.Value{}, con: e.contractOf(callee)}
				_ = sub
				out = fr.inlineForce(callee, args, rt)
			}
			if ft.fatal != "" {
				res.Fatal = ft.fatal
				return res
			}
			var outs []*Val
			switch {
			case out == nil:
			case out.Tup != nil:
				outs = out.Tup
			default:
				outs = []*Val{out}
			}
			for i, n := range st.Names {
				if n == "_" || i >= len(outs) {
					continue
				}
				o := *outs[i]
				o.T = rt.At(i).Type()
				vars[n] = &sv{v: &o}
			}
		}
	}
	if ft.fatal != "" {
		res.Fatal = ft.fatal
		return res
	}
	res.Obs = ft.obs
	for k := range ft.partial {
		res.Partial = append(res.Partial, k)
	}
	return res
}

func (e *Env) methodOf(t types.Type, name string) *ssa.Function {
	for _, cand := range []types.Type{t, types.NewPointer(t)} {
		ms := e.prog.MethodSets.MethodSet(cand)
		for i := 0; i < ms.Len(); i++ {
			if ms.At(i).Obj().Name() == name {
				return e.prog.MethodValue(ms.At(i))
			}
		}
	}
	return nil
}

// inlineForce inlines a callee regardless of size (its loops are cut with the invariants of its contract, if any).
func (fr *frame) inlineForce(callee *ssa.Function, args []*Val, rt types.Type) *Val {
	saveDepth := fr.depth
	fr.depth = 0
	defer func() { fr.depth = saveDepth }()
	return fr.inlineWith(callee, args, nil, rt, token.NoPos, fr.ft.e.contractOf(callee))
}
