package main

// Value model: every Go value is a flat vector of SMT leaf terms in a canonical
// order determined by its type (see leavesOf). Static side information (where a
// pointer/slice points) is kept on the Go side.

import (
	"fmt"
	"go/types"
	"strings"
	"sync"

	"golang.org/x/tools/go/ssa"
)

type Leaf struct {
	Path string // e.g. ".Dimensions#len"
	Sort string
	Kind byte // 'i' signed int, 'u' unsigned int, 'b' bool, 'f' float, 'r' ref, 't' tag, 'a' string bytes array, 'o' offset, 'l' len, 'c' cap
	W    int  // bit width for ints
	Lift int  // number of array levels this leaf was lifted through
}

type typeInfo struct {
	leaves []Leaf
}

var leafCache = map[string]*typeInfo{}
var leafMu sync.Mutex

func typeKey(t types.Type) string {
	t = types.Unalias(t)
	switch u := t.(type) {
	case *types.Basic:
		switch u.Kind() {
		case types.Uint8:
			return "uint8"
		case types.Int32:
			return "int32"
		case types.UntypedInt:
			return "int"
		case types.UntypedFloat:
			return "float64"
		case types.UntypedBool:
			return "bool"
		case types.UntypedString:
			return "string"
		case types.UntypedRune:
			return "int32"
		}
		return u.Name()
	case *types.Pointer:
		return "*" + typeKey(u.Elem())
	case *types.Slice:
		return "[]" + typeKey(u.Elem())
	case *types.Array:
		return fmt.Sprintf("[%d]%s", u.Len(), typeKey(u.Elem()))
	case *types.Named:
		if u.Obj().Pkg() != nil {
			return u.Obj().Pkg().Name() + "." + u.Obj().Name()
		}
		return u.Obj().Name()
	}
	return types.TypeString(t, func(p *types.Package) string { return p.Name() })
}

func intInfo(b *types.Basic) (w int, signed bool, ok bool) {
	switch b.Kind() {
	case types.Int8:
		return 8, true, true
	case types.Int16:
		return 16, true, true
	case types.Int32, types.UntypedRune:
		return 32, true, true
	case types.Int64, types.Int, types.UntypedInt:
		return 64, true, true
	case types.Uint8:
		return 8, false, true
	case types.Uint16:
		return 16, false, true
	case types.Uint32:
		return 32, false, true
	case types.Uint64, types.Uint, types.Uintptr:
		return 64, false, true
	}
	return 0, false, false
}

func leavesOf(t types.Type) []Leaf {
	k := typeKey(t)
	if gInt {
		k = "int:" + k
	}
	leafMu.Lock()
	ti, ok := leafCache[k]
	leafMu.Unlock()
	if ok {
		return ti.leaves
	}
	// guard against recursive struct-by-value (impossible in Go) — pointers stop recursion.
	var out []Leaf
	switch u := t.Underlying().(type) {
	case *types.Basic:
		if w, s, ok := intInfo(u); ok {
			kind := byte('u')
			if s {
				kind = 'i'
			}
			out = []Leaf{{"", SBV(w), kind, w, 0}}
		} else {
			switch u.Kind() {
			case types.Bool, types.UntypedBool:
				out = []Leaf{{"", SBool, 'b', 0, 0}}
			case types.Float32:
				out = []Leaf{{"", SF32, 'f', 32, 0}}
			case types.Float64, types.UntypedFloat:
				out = []Leaf{{"", SF64, 'f', 64, 0}}
			case types.String, types.UntypedString:
				out = []Leaf{{"#arr", SArr(SIdx, SBV(8)), 'a', 0, 0}, {"#off", SIdx, 'o', 64, 0}, {"#len", SIdx, 'l', 64, 0}}
			case types.UnsafePointer, types.UntypedNil:
				out = []Leaf{{"", SInt, 'r', 0, 0}}
			case types.Complex64, types.Complex128:
				out = []Leaf{{"#re", SF64, 'f', 64, 0}, {"#im", SF64, 'f', 64, 0}}
			default:
				out = []Leaf{{"", SInt, 'r', 0, 0}}
			}
		}
	case *types.Pointer, *types.Map, *types.Chan, *types.Signature:
		out = []Leaf{{"", SInt, 'r', 0, 0}}
	case *types.Slice:
		out = []Leaf{{"#ref", SInt, 'r', 0, 0}, {"#off", SIdx, 'o', 64, 0}, {"#len", SIdx, 'l', 64, 0}, {"#cap", SIdx, 'c', 64, 0}}
	case *types.Interface:
		out = []Leaf{{"#tag", SInt, 't', 0, 0}, {"#pl", SInt, 'r', 0, 0}}
	case *types.Struct:
		for i := 0; i < u.NumFields(); i++ {
			f := u.Field(i)
			for _, l := range leavesOf(f.Type()) {
				l.Path = "." + f.Name() + l.Path
				out = append(out, l)
			}
		}
	case *types.Array:
		for _, l := range leavesOf(u.Elem()) {
			l.Sort = SArr(SIdx, l.Sort)
			l.Lift++
			out = append(out, l)
		}
	case *types.Tuple:
		for i := 0; i < u.Len(); i++ {
			for _, l := range leavesOf(u.At(i).Type()) {
				l.Path = fmt.Sprintf("$%d%s", i, l.Path)
				out = append(out, l)
			}
		}
	default:
		out = []Leaf{{"", SInt, 'r', 0, 0}}
	}
	leafMu.Lock()
	leafCache[k] = &typeInfo{out}
	leafMu.Unlock()
	return out
}

// Step is one step of an access path below a memory root.
type Step struct {
	Field string // non-empty: field selection
	Idx   *Term  // non-nil: array index (sort SIdx)
}

// LV designates a memory location: component root + reference + steps.
type LV struct {
	Root  string // "H:<struct type>", "E:<elem type>", "C:<scalar type>"
	Ref   Term
	Steps []Step
	T     types.Type // type of the designated location
}

func (lv *LV) fieldPath() string {
	var sb strings.Builder
	for _, s := range lv.Steps {
		if s.Field != "" {
			sb.WriteString("." + s.Field)
		}
	}
	return sb.String()
}
func (lv *LV) idxs() []Term {
	var out []Term
	for _, s := range lv.Steps {
		if s.Idx != nil {
			out = append(out, *s.Idx)
		}
	}
	return out
}
func (lv *LV) extend(s Step, t types.Type) *LV {
	n := &LV{Root: lv.Root, Ref: lv.Ref, T: t}
	n.Steps = append(append([]Step{}, lv.Steps...), s)
	return n
}

// Val is a Go value.
type Val struct {
	T  types.Type
	L  []Term
	LV *LV     // for pointers: the designated location (nil = generic root by type)
	Rg *LV     // for slices: the backing array location (nil = E:<elem> at #ref)
	Lit *string // for strings: literal text if statically known
	Tup []*Val // for tuples (call results): component values (L unused)
	FnName string // for function values: static callee name if known
	Fn     *ssa.Function // closures: body
	Bind   []*Val        // closures: captured values
	boxed  *Val          // interfaces: statically known boxed value
	Bits   *Term         // floats obtained from math.FloatNNfrombits: the exact bit pattern (NaN payloads)
}

func rootForPointee(t types.Type) string {
	switch u := t.Underlying().(type) {
	case *types.Struct:
		return "H:" + typeKey(t)
	case *types.Array:
		return "E:" + typeKey(u.Elem())
	}
	return "C:" + typeKey(t)
}

// pointee location of a pointer value
func (v *Val) loc() *LV {
	if v.LV != nil {
		return v.LV
	}
	pt := v.T.Underlying().(*types.Pointer).Elem()
	return &LV{Root: rootForPointee(pt), Ref: v.L[0], T: pt}
}

func sliceElem(t types.Type) types.Type {
	switch u := t.Underlying().(type) {
	case *types.Slice:
		return u.Elem()
	case *types.Array:
		return u.Elem()
	case *types.Pointer:
		return sliceElem(u.Elem())
	case *types.Basic:
		if u.Info()&types.IsString != 0 {
			return types.Typ[types.Uint8]
		}
	}
	panic("sliceElem: " + t.String())
}

// backing returns the array location backing a slice value.
func (v *Val) backing() *LV {
	if v.Rg != nil {
		return v.Rg
	}
	et := sliceElem(v.T)
	return &LV{Root: "E:" + typeKey(et), Ref: v.L[0], T: types.NewArray(et, -1)}
}

func (v *Val) sRef() Term { return v.L[0] }
func (v *Val) sOff() Term { return v.L[1] }
func (v *Val) sLen() Term { return v.L[2] }
func (v *Val) sCap() Term { return v.L[3] }

// string accessors
func (v *Val) strArr() Term { return v.L[0] }
func (v *Val) strOff() Term { return v.L[1] }
func (v *Val) strLen() Term { return v.L[2] }

// field returns the sub-value for struct field i.
func (v *Val) field(i int) *Val {
	st := v.T.Underlying().(*types.Struct)
	off := 0
	for j := 0; j < i; j++ {
		off += len(leavesOf(st.Field(j).Type()))
	}
	ft := st.Field(i).Type()
	n := len(leavesOf(ft))
	return &Val{T: ft, L: v.L[off : off+n]}
}

func fieldIndex(st *types.Struct, name string) int {
	for i := 0; i < st.NumFields(); i++ {
		if st.Field(i).Name() == name {
			return i
		}
	}
	return -1
}

// index returns element idx of an array value.
func (v *Val) index(idx Term) *Val {
	at := v.T.Underlying().(*types.Array)
	out := &Val{T: at.Elem()}
	for _, l := range v.L {
		out.L = append(out.L, mkSelect(l, idx))
	}
	return out
}

func isPointer(t types.Type) bool { _, ok := t.Underlying().(*types.Pointer); return ok }
func isSlice(t types.Type) bool   { _, ok := t.Underlying().(*types.Slice); return ok }
func isString(t types.Type) bool {
	b, ok := t.Underlying().(*types.Basic)
	return ok && b.Info()&types.IsString != 0
}
func isInterface(t types.Type) bool { _, ok := t.Underlying().(*types.Interface); return ok }
func isIntType(t types.Type) (w int, signed bool, ok bool) {
	b, isb := t.Underlying().(*types.Basic)
	if !isb {
		return 0, false, false
	}
	return intInfo(b)
}
func isFloatType(t types.Type) (w int, ok bool) {
	b, isb := t.Underlying().(*types.Basic)
	if !isb {
		return 0, false
	}
	switch b.Kind() {
	case types.Float32:
		return 32, true
	case types.Float64, types.UntypedFloat:
		return 64, true
	}
	return 0, false
}
func isBoolType(t types.Type) bool {
	b, isb := t.Underlying().(*types.Basic)
	return isb && b.Info()&types.IsBoolean != 0
}

const maxLen = int64(1) << 40 // assumed upper bound on slice/string lengths and offsets

// typeInvariant returns assumptions that hold of every value of the leaf kinds
// (slice len/cap/off ranges). Returned as a list of formulas over v.L.
func typeInvariantsUnused(v *Val) []Term {
	var out []Term
	ls := leavesOf(v.T)
	for i, l := range ls {
		if l.Lift > 0 {
			continue
		}
		switch l.Kind {
		case 'l':
			out = append(out, app(SBool, "bvule", v.L[i], idxInt(maxLen)))
			if i+1 < len(ls) && ls[i+1].Kind == 'c' {
				out = append(out, app(SBool, "bvule", v.L[i], v.L[i+1]))
			}
		case 'c', 'o':
			out = append(out, app(SBool, "bvule", v.L[i], idxInt(maxLen)))
		case 'r', 't':
			out = append(out, app(SBool, ">=", v.L[i], intConst(0)))
		}
	}
	return out
}
