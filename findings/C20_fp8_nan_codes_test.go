package core

// Demonstration for the known finding "FP8 NaN codes do not stay NaN" (property C20).
// Inject with:  go test -overlay <{"Replace":{"/repo/internal/core/zz_finding_test.go": this file}}> -vet=off -run TestFindingFP8NaNCodes ./internal/core/
// The unmodified library fails this test: every NaN code of both FP8 formats decodes to NaN, is re-encoded
// as 0x7F (the code the library itself decodes as +Inf), so NaN -> number.

import (
	"math"
	"testing"
)

func TestFindingFP8NaNCodes(t *testing.T) {
	for c := 0; c < 256; c++ {
		f := FP8E4M3(c).ToFloat32()
		if math.IsNaN(float64(f)) {
			if g := Float32ToFP8E4M3(f).ToFloat32(); !math.IsNaN(float64(g)) {
				t.Errorf("E4M3 code 0x%02x: NaN re-encodes to 0x%02x which decodes to %v", c, uint8(Float32ToFP8E4M3(f)), g)
			}
		}
		f2 := FP8E5M2(c).ToFloat32()
		if math.IsNaN(float64(f2)) {
			if g := Float32ToFP8E5M2(f2).ToFloat32(); !math.IsNaN(float64(g)) {
				t.Errorf("E5M2 code 0x%02x: NaN re-encodes to 0x%02x which decodes to %v", c, uint8(Float32ToFP8E5M2(f2)), g)
			}
		}
	}
}
