#!/bin/bash
# Demonstrates the C18 known findings with the race detector (nothing is written into /repo).
export PATH=/opt/veriftools/go1.26.8/bin:$PATH GOFLAGS=-mod=mod GOPROXY=off GOTOOLCHAIN=local
d=$(mktemp -d); trap "rm -rf $d" EXIT
echo "{\"Replace\":{\"/repo/internal/structures/zz_race_replay_test.go\":\"/verif/findings/C18/zz_race_replay_test.go\"}}" > $d/ov.json
cd /repo/internal/structures && go test -race -overlay $d/ov.json -vet=off -count=1 -run 'TestReplayLazyStateRace|TestReplayRunningFlagRace' . > $d/out.txt 2>&1
n=$(grep -c "WARNING: DATA RACE" $d/out.txt)
grep -A12 "WARNING: DATA RACE" $d/out.txt | grep -E "^  (github.com|  )" | grep -oE "structures\.\(\*[A-Za-z0-9]+\)\.[A-Za-z]+\(\)|btreev2_[a-z]+\.go:[0-9]+" | sort | uniq -c | sort -rn | head -12
if [ "$n" -gt 0 ]; then echo "REPRODUCED: $n data race reports"; else echo "NOT reproduced"; tail -5 $d/out.txt; fi
