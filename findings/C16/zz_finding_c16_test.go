package writer

// Demonstration for the known finding "WriteAtWithAllocation leaks the allocation when the write fails" (property C16).
// Inject with go test -overlay into internal/writer.

import (
	"path/filepath"
	"testing"
)

// writer.(*FileWriter).WriteAtWithAllocation#post#err != nil ==> allocSame(w.allocator)
func TestFindingC16_FailedWriteKeepsAllocation(t *testing.T) {
	w, err := NewFileWriter(filepath.Join(t.TempDir(), "f.h5"), ModeTruncate, 48)
	if err != nil {
		t.Fatal(err)
	}
	before := w.EndOfFile()
	_ = w.file.Close() // make the underlying write fail while the handle still looks open
	_, err = w.WriteAtWithAllocation([]byte{1, 2, 3, 4})
	if err == nil {
		t.Fatal("expected the write to fail")
	}
	if after := w.EndOfFile(); after != before {
		t.Errorf("FINDING: WriteAtWithAllocation returned an error but the allocator advanced from %d to %d (the block stays recorded)", before, after)
	}
}
