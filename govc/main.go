package main

import (
	"fmt"
	"golang.org/x/tools/go/packages"
	"golang.org/x/tools/go/ssa"
	"golang.org/x/tools/go/ssa/ssautil"
)

func main() {
	cfg := &packages.Config{Mode: packages.LoadAllSyntax, Dir: "/repo", BuildFlags: []string{"-tags=verif"}}
	pkgs, err := packages.Load(cfg, "./...")
	if err != nil { panic(err) }
	prog, spkgs := ssautil.AllPackages(pkgs, ssa.GlobalDebug)
	prog.Build()
	fmt.Println(len(pkgs), len(spkgs))
}
