#!/bin/bash
d=$(mktemp -d); trap "rm -rf $d" EXIT
echo "{\"Replace\":{\"/repo/internal/core/zz_links_replay_test.go\":\"/verif/findings/C11/zz_links_replay_test.go\"}}" > $d/ov.json
cd /repo/internal/core && go test -overlay $d/ov.json -vet=off -count=1 -run 'TestReplay' -v . 2>&1 | grep -E "REPRODUCED|^--- |^ok|FAIL" | cut -c1-220
