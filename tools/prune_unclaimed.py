#!/usr/bin/env python3
"""Remove entries of unclaimed.json for a property that are not reported by a fresh --baseline run
(i.e. obligations that now discharge or no longer exist). Used by hand only."""
import json, sys, re
prop = sys.argv[1]
still = set()
for line in sys.stdin:
    m = re.match(r'\s*("(?:[^"\\]|\\.)*"): ', line)
    if m: still.add(json.loads(m.group(1)))
u = json.load(open('/verif/unclaimed.json'))
n0 = len(u["obligations"])
u["obligations"] = {k: v for k, v in u["obligations"].items() if not v.startswith(prop + ":") or k in still}
json.dump(u, open('/verif/unclaimed.json', 'w'), indent=1, sort_keys=True)
print(n0, "->", len(u["obligations"]))
