#!/bin/bash
# Validates every seeded change under /verif/seeded: the patch applies to the current /repo HEAD, the code builds,
# the unedited test suite passes with it, the demonstration fails with it and passes without it.
# Then (optionally, with "detect") runs the property's check against it. Uses a scratch worktree outside /repo and /verif.
export PATH=/opt/veriftools/go1.26.8/bin:$PATH GOFLAGS=-mod=mod GOPROXY=off GOTOOLCHAIN=local
mode=${1:-validate}; shift
ids=${@:-$(ls /verif/seeded)}
for id in $ids; do
  d=/verif/seeded/$id
  [ -f $d/patch.diff ] || continue
  if [ "$mode" = validate ]; then
    wt=$(mktemp -d /tmp/seedcheck-XXXX); rmdir $wt
    git -C /repo worktree add -q --detach $wt HEAD || { echo "$id: cannot create worktree"; continue; }
    demo=$(cat $d/demo_path.txt)
    res="applies=no"
    if git -C $wt apply $d/patch.diff 2>/dev/null; then
      res="applies=yes"
      (cd $wt && go build ./... >/dev/null 2>&1) && res="$res builds=yes" || res="$res builds=NO"
      (cd $wt && go test -vet=off -count=1 ./... >/dev/null 2>&1) && res="$res suite=pass" || res="$res suite=FAIL"
      cp $d/zz_seed_demo_test.go $wt/$demo
      pkg=./$(dirname $demo)
      (cd $wt && go test -vet=off -count=1 -run 'TestSeedDemo|TestSeeded|TestZZSeed' $pkg >/dev/null 2>&1) && res="$res demo_with=PASS(!)" || res="$res demo_with=fail"
      git -C $wt apply -R $d/patch.diff
      (cd $wt && go test -vet=off -count=1 -run 'TestSeedDemo|TestSeeded|TestZZSeed' $pkg >/dev/null 2>&1) && res="$res demo_without=pass" || res="$res demo_without=FAIL(!)"
    fi
    git -C /repo worktree remove --force $wt
    echo "$id: $res"
  else
    prop=$(echo $id | sed 's/-.*//')
    n=$(/verif/tools/seedtest.sh $id /verif/bin/govc check --property $prop 2>/dev/null | grep -c '^VIOLATION')
    echo "$id: check $prop violations=$n"
  fi
done
