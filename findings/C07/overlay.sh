#!/bin/bash
# Runs the triage demonstrations against /repo (nothing is written into it). Each test was written to PASS on the
# commit before the repairs (logging REPRODUCED) and to FAIL with "no panic"/"NOT reproduced" once its defect is repaired.
export PATH=/opt/veriftools/go1.26.8/bin:$PATH GOFLAGS=-mod=mod GOPROXY=off GOTOOLCHAIN=local
d=$(mktemp -d); trap "rm -rf $d" EXIT
cat > $d/ov.json <<J
{"Replace":{"/repo/internal/core/zz_triage_core_replay_test.go":"/verif/findings/C07/zz_triage_core_replay_test.go",
"/repo/internal/structures/zz_triage_structures_replay_test.go":"/verif/findings/C07/zz_triage_structures_replay_test.go",
"/repo/zz_triage_hdf5_replay_test.go":"/verif/findings/C07/zz_triage_hdf5_replay_test.go"}}
J
cd /repo && (ulimit -v 6000000; go test -overlay $d/ov.json -vet=off -count=1 -timeout 300s -run 'TestTriage' -v ./internal/core ./internal/structures . 2>&1) | grep -E "^(--- |ok|FAIL|panic)" | sort | uniq -c | sort -rn | head -70
