package writer

// Demonstrations for known findings of property C08 / C16 (inject with go test -overlay into internal/writer).

import "testing"

// writer.(*ShuffleFilter).Apply#div0 / Remove#div0: element size 0 is never validated.
func TestFindingC08_ShuffleElementSizeZeroPanics(t *testing.T) {
	for name, f := range map[string]func(){
		"Apply":  func() { _, _ = NewShuffleFilter(0).Apply([]byte{1}) },
		"Remove": func() { _, _ = NewShuffleFilter(0).Remove([]byte{1}) },
	} {
		func() {
			defer func() {
				if r := recover(); r != nil {
					t.Errorf("FINDING: ShuffleFilter(0).%s panicked: %v", name, r)
				}
			}()
			f()
		}()
	}
}

// writer.(*ShuffleFilter).Apply#post#err == nil ==> len(result) == len(data): the length is truncated to uint32.
func TestFindingC08_ShuffleTruncatesLongInput(t *testing.T) {
	if testing.Short() {
		t.Skip("needs 4 GiB")
	}
	in := make([]byte, (1<<32)+4)
	out, err := NewShuffleFilter(4).Apply(in)
	if err == nil && len(out) != len(in) {
		t.Errorf("FINDING: Apply on %d bytes returned %d bytes with nil error", len(in), len(out))
	}
}
