package main

import (
	"fmt"
	"go/constant"
	"go/token"
	"go/types"
	"math/big"
	"strings"

	"golang.org/x/tools/go/ssa"
)

type sv struct {
	v *Val
	c *big.Int // untyped integer constant
}

type Scope struct {
	fr    *frame
	mem   *Mem
	old   *Mem
	vars  map[string]*sv
	res   func(name string) *Val
	pkg   *types.Package
	err   error
	depth int
	qdepth int
	// fresh(x) at a call site means "allocated during that call": above every reference that exists in the caller
	// when the call is made (freshLo) and inside the block of references reserved for the callee (freshHi, 0 = open)
	freshLo, freshHi int64
}

func (sc *Scope) fail(format string, a ...interface{}) *sv {
	if sc.err == nil {
		sc.err = fmt.Errorf(format, a...)
	}
	return &sv{v: &Val{T: types.Typ[types.Bool], L: []Term{tTrue}}}
}

func (sc *Scope) child() *Scope {
	n := *sc
	n.vars = map[string]*sv{}
	for k, v := range sc.vars {
		n.vars[k] = v
	}
	return &n
}

func basicType(name string) types.Type {
	switch name {
	case "int":
		return types.Typ[types.Int]
	case "int8":
		return types.Typ[types.Int8]
	case "int16":
		return types.Typ[types.Int16]
	case "int32":
		return types.Typ[types.Int32]
	case "int64":
		return types.Typ[types.Int64]
	case "uint":
		return types.Typ[types.Uint]
	case "uint8", "byte":
		return types.Typ[types.Uint8]
	case "uint16":
		return types.Typ[types.Uint16]
	case "uint32":
		return types.Typ[types.Uint32]
	case "uint64":
		return types.Typ[types.Uint64]
	case "bool":
		return types.Typ[types.Bool]
	case "float32":
		return types.Typ[types.Float32]
	case "float64":
		return types.Typ[types.Float64]
	case "string":
		return types.Typ[types.String]
	}
	return nil
}

func (sc *Scope) typeByName(name string) types.Type {
	if strings.HasPrefix(name, "[]") {
		if et := sc.typeByName(name[2:]); et != nil {
			return types.NewSlice(et)
		}
		return nil
	}
	if strings.HasPrefix(name, "*") {
		if et := sc.typeByName(name[1:]); et != nil {
			return types.NewPointer(et)
		}
		return nil
	}
	if t := basicType(name); t != nil {
		return t
	}
	if sc.pkg != nil {
		pk := sc.pkg
		nm := name
		if i := strings.Index(name, "."); i >= 0 {
			for _, imp := range sc.pkg.Imports() {
				if imp.Name() == name[:i] {
					pk = imp
				}
			}
			nm = name[i+1:]
		}
		if o := pk.Scope().Lookup(nm); o != nil {
			if tn, ok := o.(*types.TypeName); ok {
				return tn.Type()
			}
		}
	}
	return nil
}

func boolVal(t Term) *sv { return &sv{v: &Val{T: types.Typ[types.Bool], L: []Term{t}}} }

// typed converts an untyped constant to the given type.
func (sc *Scope) typed(x *sv, t types.Type) *Val {
	if x.c == nil {
		return x.v
	}
	if w, _, ok := isIntType(t); ok {
		return &Val{T: t, L: []Term{bvConst(w, x.c)}}
	}
	if w, ok := isFloatType(t); ok {
		f, _ := new(big.Float).SetInt(x.c).Float64()
		return &Val{T: t, L: []Term{fpLit(w, f)}}
	}
	return &Val{T: types.Typ[types.Int], L: []Term{bvConst(64, x.c)}}
}

func (sc *Scope) unify(a, b *sv) (*Val, *Val) {
	switch {
	case a.c != nil && b.c != nil:
		return sc.typed(a, types.Typ[types.Int]), sc.typed(b, types.Typ[types.Int])
	case a.c != nil:
		return sc.typed(a, b.v.T), b.v
	case b.c != nil:
		return a.v, sc.typed(b, a.v.T)
	}
	return a.v, b.v
}

func (sc *Scope) revealed(name string) bool {
	fr := sc.fr
	if fr == nil || fr.ft == nil {
		return false
	}
	if c := fr.ft.topCon; c != nil && c.Reveal[name] {
		return true
	}
	return false
}

func (sc *Scope) evalBool(e *SExpr) Term {
	x := sc.eval(e)
	if x.v == nil || len(x.v.L) != 1 || x.v.L[0].S != SBool {
		sc.fail("expression %s is not boolean", e)
		return tTrue
	}
	return x.v.L[0]
}

func (sc *Scope) deref(v *Val) *Val {
	// pointer to struct -> struct value loaded from the scope's memory
	if isPointer(v.T) {
		lv := v.loc()
		return sc.fr.ft.load(sc.mem, lv)
	}
	return v
}

func (sc *Scope) eval(e *SExpr) *sv {
	ft := sc.fr.ft
	switch e.Op {
	case "int":
		bi, ok := new(big.Int).SetString(e.Name, 0)
		if !ok {
			return sc.fail("bad integer literal %s", e.Name)
		}
		return &sv{c: bi}
	case "bool":
		return boolVal(mkBool(e.Name == "true"))
	case "nil":
		return &sv{v: &Val{T: types.Typ[types.UntypedNil], L: []Term{intConst(0)}}}
	case "str":
		return &sv{v: ft.strLit(e.Name)}
	case "id":
		if x, ok := sc.vars[e.Name]; ok {
			return x
		}
		if sc.res != nil {
			if v := sc.res(e.Name); v != nil {
				return &sv{v: v}
			}
		}
		if sc.pkg != nil {
			if o := sc.pkg.Scope().Lookup(e.Name); o != nil {
				switch c := o.(type) {
				case *types.Const:
					return sc.constObj(c)
				case *types.Var:
					lv := &LV{Root: "G:" + sc.pkg.Name() + "." + c.Name(), Ref: intConst(1), T: c.Type()}
					return &sv{v: ft.load(sc.mem, lv)}
				}
			}
		}
		return sc.fail("unknown identifier %s", e.Name)
	case "sel":
		// package-qualified constant?
		if e.Args[0].Op == "id" && sc.pkg != nil {
			if _, isVar := sc.vars[e.Args[0].Name]; !isVar && (sc.res == nil || sc.res(e.Args[0].Name) == nil) {
				for _, imp := range sc.pkg.Imports() {
					if imp.Name() == e.Args[0].Name {
						if o := imp.Scope().Lookup(e.Name); o != nil {
							if c, ok := o.(*types.Const); ok {
								return sc.constObj(c)
							}
						}
					}
				}
			}
		}
		base := sc.eval(e.Args[0])
		if base.v == nil {
			return sc.fail("selector on constant")
		}
		b := base.v
		if isPointer(b.T) {
			lv := b.loc()
			st, ok := lv.T.Underlying().(*types.Struct)
			if !ok {
				return sc.fail("selector .%s on non-struct pointer %s", e.Name, b.T)
			}
			i := fieldIndex(st, e.Name)
			if i < 0 {
				return sc.fail("no field %s in %s", e.Name, lv.T)
			}
			f := st.Field(i)
			nlv := lv.extend(Step{Field: f.Name()}, f.Type())
			return &sv{v: ft.load(sc.mem, nlv)}
		}
		st, ok := b.T.Underlying().(*types.Struct)
		if !ok {
			return sc.fail("selector .%s on %s", e.Name, b.T)
		}
		i := fieldIndex(st, e.Name)
		if i < 0 {
			return sc.fail("no field %s in %s", e.Name, b.T)
		}
		return &sv{v: b.field(i)}
	case "idx":
		base := sc.eval(e.Args[0])
		iv := sc.eval(e.Args[1])
		idx := sc.toIdx(iv)
		b := base.v
		if b == nil {
			return sc.fail("index on constant")
		}
		switch {
		case isSlice(b.T):
			bk := b.backing()
			ai := app(SIdx, "bvadd", b.sOff(), idx)
			if sc.qdepth == 0 {
				ai = ft.c.Define("si", ai)
				ft.c.AddInst(ai)
			}
			nlv := bk.extend(Step{Idx: &ai}, sliceElem(b.T))
			return &sv{v: ft.load(sc.mem, nlv)}
		case isString(b.T):
			bt := mkSelect(b.strArr(), app(SIdx, "bvadd", b.strOff(), idx))
			if gInt && sc.qdepth == 0 {
				bt = ft.rangedDef("sb", bt, func(x Term) Term { return inTypeRange(x, 8, false) })
			}
			return &sv{v: &Val{T: types.Typ[types.Uint8], L: []Term{bt}}}
		}
		if _, ok := b.T.Underlying().(*types.Array); ok {
			return &sv{v: b.index(idx)}
		}
		return sc.fail("index on %s", b.T)
	case "slice":
		base := sc.eval(e.Args[0])
		b := base.v
		lo := idxInt(0)
		if e.Args[1] != nil {
			lo = sc.toIdx(sc.eval(e.Args[1]))
		}
		if isSlice(b.T) {
			hi := b.sLen()
			if e.Args[2] != nil {
				hi = sc.toIdx(sc.eval(e.Args[2]))
			}
			return &sv{v: &Val{T: b.T, L: []Term{b.sRef(), app(SIdx, "bvadd", b.sOff(), lo), app(SIdx, "bvsub", hi, lo), app(SIdx, "bvsub", b.sCap(), lo)}, Rg: b.Rg}}
		}
		if isString(b.T) {
			hi := b.strLen()
			if e.Args[2] != nil {
				hi = sc.toIdx(sc.eval(e.Args[2]))
			}
			return &sv{v: &Val{T: b.T, L: []Term{b.strArr(), app(SIdx, "bvadd", b.strOff(), lo), app(SIdx, "bvsub", hi, lo)}}}
		}
		return sc.fail("slice of %s", b.T)
	case "old":
		n := *sc
		n.mem = sc.old
		r := n.eval(e.Args[0])
		if n.err != nil && sc.err == nil {
			sc.err = n.err
		}
		return r
	case "forall", "exists":
		names := strings.Split(e.Name, ",")
		tnames := strings.Split(e.BT, ",")
		n := sc.child()
		n.qdepth = sc.qdepth + 1
		var bvs, sorts []string
		for i, nm := range names {
			t := sc.typeByName(tnames[i])
			if t == nil {
				return sc.fail("unknown binder type %s", tnames[i])
			}
			ls := leavesOf(t)
			if len(ls) != 1 {
				return sc.fail("binder type %s not scalar", tnames[i])
			}
			bv := ft.c.BoundVar(nm)
			bvs = append(bvs, bv)
			sorts = append(sorts, ls[0].Sort)
			n.vars[nm] = &sv{v: &Val{T: t, L: []Term{{ls[0].Sort, bv}}}}
		}
		ft.inQuant++
		body := n.evalBool(e.Args[0])
		ft.inQuant--
		if n.err != nil && sc.err == nil {
			sc.err = n.err
		}
		if sc.qdepth > 0 {
			var bs strings.Builder
			for i := range bvs {
				fmt.Fprintf(&bs, "(%s %s)", bvs[i], sorts[i])
			}
			return boolVal(Term{SBool, fmt.Sprintf("(%s (%s) %s)", e.Op, bs.String(), body.T)})
		}
		return boolVal(ft.c.QuantN(e.Op == "exists", bvs, sorts, body))
	case "ite":
		c := sc.evalBool(e.Args[0])
		a, b := sc.unify(sc.eval(e.Args[1]), sc.eval(e.Args[2]))
		return &sv{v: ft.iteVal(c, a, b)}
	case "unop":
		x := sc.eval(e.Args[0])
		switch e.Name {
		case "!":
			return boolVal(mkNot(sc.evalBoolOf(x, e)))
		case "-":
			if x.c != nil {
				return &sv{c: new(big.Int).Neg(x.c)}
			}
			if w, _, ok := isIntType(x.v.T); ok {
				return &sv{v: &Val{T: x.v.T, L: []Term{app(SBV(w), "bvneg", x.v.L[0])}}}
			}
			if w, ok := isFloatType(x.v.T); ok {
				return &sv{v: &Val{T: x.v.T, L: []Term{app(fpSortOf(w), "fp.neg", x.v.L[0])}}}
			}
		case "^":
			if w, _, ok := isIntType(x.v.T); ok && x.c == nil {
				return &sv{v: &Val{T: x.v.T, L: []Term{app(SBV(w), "bvnot", x.v.L[0])}}}
			}
		}
		return sc.fail("bad unary %s", e.Name)
	case "binop":
		return sc.binop(e)
	case "call":
		return sc.call(e)
	}
	return sc.fail("cannot evaluate %s", e)
}

func (sc *Scope) evalBoolOf(x *sv, e *SExpr) Term {
	if x.v == nil || len(x.v.L) != 1 || x.v.L[0].S != SBool {
		sc.fail("operand of %s is not boolean", e)
		return tTrue
	}
	return x.v.L[0]
}

func (sc *Scope) constObj(c *types.Const) *sv {
	switch c.Val().Kind() {
	case constant.Int:
		bi, _ := new(big.Int).SetString(c.Val().ExactString(), 10)
		if b, ok := c.Type().Underlying().(*types.Basic); ok && b.Info()&types.IsUntyped != 0 {
			return &sv{c: bi}
		}
		if w, _, ok := isIntType(c.Type()); ok {
			return &sv{v: &Val{T: c.Type(), L: []Term{bvConst(w, bi)}}}
		}
		return &sv{c: bi}
	case constant.Bool:
		return boolVal(mkBool(constant.BoolVal(c.Val())))
	case constant.String:
		return &sv{v: sc.fr.ft.strLit(constant.StringVal(c.Val()))}
	case constant.Float:
		f, _ := constant.Float64Val(c.Val())
		return &sv{v: &Val{T: types.Typ[types.Float64], L: []Term{fpLit(64, f)}}}
	}
	return sc.fail("unsupported constant %s", c.Name())
}

func (sc *Scope) toIdx(x *sv) Term {
	if x.c != nil {
		return bvConst(64, x.c)
	}
	w, signed, ok := isIntType(x.v.T)
	if !ok {
		sc.fail("index is not an integer")
		return idxInt(0)
	}
	return extendTo(x.v.L[0], w, signed, 64)
}

func (sc *Scope) binop(e *SExpr) *sv {
	op := e.Name
	switch op {
	case "&&":
		a := sc.evalBool(e.Args[0])
		b := sc.evalBool(e.Args[1])
		return boolVal(mkAnd(a, b))
	case "||":
		return boolVal(mkOr(sc.evalBool(e.Args[0]), sc.evalBool(e.Args[1])))
	case "==>":
		return boolVal(mkImp(sc.evalBool(e.Args[0]), sc.evalBool(e.Args[1])))
	case "<==>":
		return boolVal(mkEq(sc.evalBool(e.Args[0]), sc.evalBool(e.Args[1])))
	}
	x, y := sc.eval(e.Args[0]), sc.eval(e.Args[1])
	if x.c != nil && y.c != nil {
		r := new(big.Int)
		switch op {
		case "+":
			return &sv{c: r.Add(x.c, y.c)}
		case "-":
			return &sv{c: r.Sub(x.c, y.c)}
		case "*":
			return &sv{c: r.Mul(x.c, y.c)}
		case "/":
			if y.c.Sign() == 0 {
				return sc.fail("constant division by zero")
			}
			return &sv{c: r.Quo(x.c, y.c)}
		case "%":
			if y.c.Sign() == 0 {
				return sc.fail("constant division by zero")
			}
			return &sv{c: r.Rem(x.c, y.c)}
		case "<<":
			return &sv{c: r.Lsh(x.c, uint(y.c.Int64()))}
		case ">>":
			return &sv{c: r.Rsh(x.c, uint(y.c.Int64()))}
		case "==":
			return boolVal(mkBool(x.c.Cmp(y.c) == 0))
		case "!=":
			return boolVal(mkBool(x.c.Cmp(y.c) != 0))
		case "<":
			return boolVal(mkBool(x.c.Cmp(y.c) < 0))
		case "<=":
			return boolVal(mkBool(x.c.Cmp(y.c) <= 0))
		case ">":
			return boolVal(mkBool(x.c.Cmp(y.c) > 0))
		case ">=":
			return boolVal(mkBool(x.c.Cmp(y.c) >= 0))
		}
	}
	if op == "<<" || op == ">>" {
		if x.c != nil {
			x = &sv{v: sc.typed(x, types.Typ[types.Int])}
		}
		w, signed, ok := isIntType(x.v.T)
		if !ok {
			return sc.fail("shift of non-integer")
		}
		var cnt Term
		if y.c != nil {
			cnt = bvConst(w, y.c)
		} else {
			cw, _, _ := isIntType(y.v.T)
			if cw <= w {
				cnt = extendTo(y.v.L[0], cw, false, w)
			} else {
				cnt = mkIte(app(SBool, "bvuge", y.v.L[0], bvInt(cw, int64(w))), bvInt(w, int64(w)), extendTo(y.v.L[0], cw, false, w))
			}
		}
		o := "bvshl"
		if op == ">>" {
			o = "bvlshr"
			if signed {
				o = "bvashr"
			}
		}
		return &sv{v: &Val{T: x.v.T, L: []Term{app(SBV(w), o, x.v.L[0], cnt)}}}
	}
	a, b := sc.unify(x, y)
	if a == nil || b == nil {
		return sc.fail("bad operands of %s", op)
	}
	// nil comparisons
	if (op == "==" || op == "!=") && (a.T == types.Typ[types.UntypedNil] || b.T == types.Typ[types.UntypedNil]) {
		o := a
		if a.T == types.Typ[types.UntypedNil] {
			o = b
		}
		eq := mkEq(o.L[0], intConst(0))
		if op == "!=" {
			eq = mkNot(eq)
		}
		return boolVal(eq)
	}
	if w, signed, ok := isIntType(a.T); ok {
		if w2, s2, ok2 := isIntType(b.T); !ok2 || w2 != w || s2 != signed {
			return sc.fail("mismatched integer types in %s: %s vs %s", e, a.T, b.T)
		}
		s := SBV(w)
		p, q := a.L[0], b.L[0]
		mk := func(t Term) *sv { return &sv{v: &Val{T: a.T, L: []Term{t}}} }
		pre := "bvu"
		if signed {
			pre = "bvs"
		}
		switch op {
		case "+":
			return mk(app(s, "bvadd", p, q))
		case "-":
			return mk(app(s, "bvsub", p, q))
		case "*":
			return mk(app(s, "bvmul", p, q))
		case "/":
			return mk(app(s, pre+"div", p, q))
		case "%":
			return mk(app(s, pre+"rem", p, q))
		case "&":
			return mk(app(s, "bvand", p, q))
		case "|":
			return mk(app(s, "bvor", p, q))
		case "^":
			return mk(app(s, "bvxor", p, q))
		case "&^":
			return mk(app(s, "bvand", p, app(s, "bvnot", q)))
		case "==":
			return boolVal(mkEq(p, q))
		case "!=":
			return boolVal(mkNot(mkEq(p, q)))
		case "<":
			return boolVal(app(SBool, pre+"lt", p, q))
		case "<=":
			return boolVal(app(SBool, pre+"le", p, q))
		case ">":
			return boolVal(app(SBool, pre+"gt", p, q))
		case ">=":
			return boolVal(app(SBool, pre+"ge", p, q))
		}
	}
	if w, ok := isFloatType(a.T); ok {
		s := fpSortOf(w)
		p, q := a.L[0], b.L[0]
		if q.S != s {
			return sc.fail("mismatched float types in %s", e)
		}
		rm := Term{"RoundingMode", "RNE"}
		mk := func(t Term) *sv { return &sv{v: &Val{T: a.T, L: []Term{t}}} }
		switch op {
		case "+":
			return mk(app(s, "fp.add", rm, p, q))
		case "-":
			return mk(app(s, "fp.sub", rm, p, q))
		case "*":
			return mk(app(s, "fp.mul", rm, p, q))
		case "/":
			return mk(app(s, "fp.div", rm, p, q))
		case "==":
			return boolVal(app(SBool, "fp.eq", p, q))
		case "!=":
			return boolVal(mkNot(app(SBool, "fp.eq", p, q)))
		case "<":
			return boolVal(app(SBool, "fp.lt", p, q))
		case "<=":
			return boolVal(app(SBool, "fp.leq", p, q))
		case ">":
			return boolVal(app(SBool, "fp.gt", p, q))
		case ">=":
			return boolVal(app(SBool, "fp.geq", p, q))
		}
	}
	if op == "==" || op == "!=" {
		var eq Term
		if isString(a.T) && isString(b.T) {
			eq = sc.fr.strEq(a, b)
		} else if len(a.L) == len(b.L) {
			eq = sc.fr.valEq(a, b)
		} else {
			return sc.fail("cannot compare %s and %s", a.T, b.T)
		}
		if op == "!=" {
			eq = mkNot(eq)
		}
		return boolVal(eq)
	}
	return sc.fail("unsupported operator %s on %s", op, a.T)
}

func (sc *Scope) call(e *SExpr) *sv {
	ft := sc.fr.ft
	name := e.Name
	// conversions
	if t := basicType(name); t != nil && len(e.Args) == 1 {
		x := sc.eval(e.Args[0])
		if x.c != nil {
			return &sv{v: sc.typed(x, t)}
		}
		return &sv{v: sc.convertVal(x.v, t)}
	}
	switch name {
	case "len", "cap":
		x := sc.eval(e.Args[0])
		if x.v == nil {
			return sc.fail("len of constant")
		}
		v := x.v
		if isPointer(v.T) {
			v = sc.deref(v)
		}
		switch {
		case isSlice(v.T):
			if name == "cap" {
				return &sv{v: &Val{T: types.Typ[types.Int], L: []Term{v.sCap()}}}
			}
			return &sv{v: &Val{T: types.Typ[types.Int], L: []Term{v.sLen()}}}
		case isString(v.T):
			return &sv{v: &Val{T: types.Typ[types.Int], L: []Term{v.strLen()}}}
		}
		if at, ok := v.T.Underlying().(*types.Array); ok {
			return &sv{c: big.NewInt(at.Len())}
		}
		return sc.fail("len of %s", v.T)
	case "le16", "le32", "le64", "be16", "be32", "be64", "u8at":
		// leNN(b, off): integer read from byte slice b at offset off
		b := sc.eval(e.Args[0]).v
		off := idxInt(0)
		if len(e.Args) > 1 {
			off = sc.toIdx(sc.eval(e.Args[1]))
		}
		nb := map[string]int{"le16": 2, "le32": 4, "le64": 8, "be16": 2, "be32": 4, "be64": 8, "u8at": 1}[name]
		sub := &Val{T: b.T, L: append([]Term{}, b.L...), Rg: b.Rg}
		var arrOf func(i Term) Term
		if isString(b.T) {
			arrOf = func(i Term) Term { return mkSelect(b.strArr(), app(SIdx, "bvadd", b.strOff(), i)) }
		} else {
			bk := sub.backing()
			arrOf = func(i Term) Term {
				ai := app(SIdx, "bvadd", b.sOff(), i)
				if sc.qdepth == 0 {
					ai = ft.c.Define("si", ai)
					ft.c.AddInst(ai)
				}
				return ft.load(sc.mem, bk.extend(Step{Idx: &ai}, types.Typ[types.Uint8])).L[0]
			}
		}
		var bs []Term
		for j := 0; j < nb; j++ {
			bs = append(bs, arrOf(app(SIdx, "bvadd", off, idxInt(int64(j)))))
		}
		var parts []Term
		if strings.HasPrefix(name, "le") {
			for j := nb - 1; j >= 0; j-- {
				parts = append(parts, bs[j])
			}
		} else {
			parts = bs
		}
		rt := map[int]types.Type{1: types.Typ[types.Uint8], 2: types.Typ[types.Uint16], 4: types.Typ[types.Uint32], 8: types.Typ[types.Uint64]}[nb]
		if nb == 1 {
			return &sv{v: &Val{T: rt, L: []Term{parts[0]}}}
		}
		if gInt {
			var terms []string
			for j, p := range parts {
				terms = append(terms, fmt.Sprintf("(* %s %s)", pow2(8*(nb-1-j)).String(), p.T))
			}
			return &sv{v: &Val{T: rt, L: []Term{{SInt, "(+ " + strings.Join(terms, " ") + ")"}}}}
		}
		return &sv{v: &Val{T: rt, L: []Term{app(SBV(8*nb), "concat", parts...)}}}
	case "mulOverflows", "addOverflows":
		a, b := sc.unify(sc.eval(e.Args[0]), sc.eval(e.Args[1]))
		w, _, ok := isIntType(a.T)
		if !ok {
			return sc.fail("%s on non-integers", name)
		}
		if gInt {
			if name == "addOverflows" {
				return boolVal(Term{SBool, fmt.Sprintf("(>= (+ %s %s) %s)", a.L[0].T, b.L[0].T, pow2(w).String())})
			}
			fn := fmt.Sprintf("mulOverflowsI%d", w)
			ft.c.addPre(fn, fmt.Sprintf("(declare-fun %s (Int Int) Bool)", fn))
			apT := rawApp(SBool, fn, a.L[0], b.L[0])
			if !sc.revealed("mulOverflows") {
				return boolVal(apT)
			}
			defI := Term{SBool, fmt.Sprintf("(>= (* %s %s) %s)", a.L[0].T, b.L[0].T, pow2(w).String())}
			if ft.inQuant > 0 {
				return boolVal(defI) // under a binder: use the definition directly
			}
			ap := ft.c.Fresh("mulovf", SBool)
			ft.c.Assume(ap, mkEq(ap, apT))
			ft.c.Assume(ap, mkEq(ap, defI))
			return boolVal(ap)
		}
		za := Term{SBV(2 * w), fmt.Sprintf("((_ zero_extend %d) %s)", w, a.L[0].T)}
		zb := Term{SBV(2 * w), fmt.Sprintf("((_ zero_extend %d) %s)", w, b.L[0].T)}
		lim := bvConst(2*w, new(big.Int).Lsh(big.NewInt(1), uint(w)))
		_ = zb
		if name == "addOverflows" {
			return boolVal(app(SBool, "bvuge", app(SBV(2*w), "bvadd", za, zb), lim))
		}
		if !sc.revealed("mulOverflows") {
			fn := fmt.Sprintf("mulOverflows%d", w)
			ft.c.addPre(fn, fmt.Sprintf("(declare-fun %s ((_ BitVec %d) (_ BitVec %d)) Bool)", fn, w, w))
			return boolVal(app(SBool, fn, a.L[0], b.L[0]))
		}
		{
			fn := fmt.Sprintf("mulOverflows%d", w)
			ft.c.addPre(fn, fmt.Sprintf("(declare-fun %s ((_ BitVec %d) (_ BitVec %d)) Bool)", fn, w, w))
			maxv := app(SBV(w), "bvnot", bvInt(w, 0))
			def := mkAnd(mkNot(mkEq(b.L[0], bvInt(w, 0))), app(SBool, "bvugt", a.L[0], app(SBV(w), "bvudiv", maxv, b.L[0])))
			ft.e.trust("mulOverflows(a,b) is defined as b != 0 && a > MAX/b; equivalence with the double-width product is solver-checked at 8/16 bits only")
			if ft.inQuant > 0 {
				return boolVal(def)
			}
			ap := ft.c.Fresh("mulovf", SBool)
			ft.c.Assume(ap, mkEq(ap, app(SBool, fn, a.L[0], b.L[0])))
			ft.c.Assume(ap, mkEq(ap, def))
			return boolVal(ap)
		}

	case "fileOf":
		// fileOf(x): the bytes of the abstract file behind an io.ReaderAt / Writer value x (a string-like view from offset 0)
		x := sc.eval(e.Args[0]).v
		if x == nil || len(x.L) == 0 {
			return sc.fail("fileOf expects a reader/writer value")
		}
		ref := x.L[0]
		if isInterface(x.T) {
			ref = x.L[1]
		}
		arr := mkSelect(ft.memGet(sc.mem, "FILE", fileCompSort()), ref)
		return &sv{v: &Val{T: types.Typ[types.String], L: []Term{arr, idxInt(0), idxInt(maxLen)}}}
	case "ghostOf":
		// ghostOf(x): the abstract bookkeeping state of an object x that is only observed through uninterpreted spec
		// functions (a second ghost component, independent of the file bytes of the same object)
		x := sc.eval(e.Args[0]).v
		if x == nil || len(x.L) == 0 {
			return sc.fail("ghostOf expects an object value")
		}
		ref := x.L[0]
		if isInterface(x.T) {
			ref = x.L[1]
		}
		arr := mkSelect(ft.memGet(sc.mem, "GHOST", fileCompSort()), ref)
		return &sv{v: &Val{T: types.Typ[types.String], L: []Term{arr, idxInt(0), idxInt(maxLen)}}}
	case "statSize":
		// statSize(f): the size os.File.Stat reports for the file handle f (an uninterpreted, non-negative function of the handle)
		x := sc.eval(e.Args[0]).v
		if x == nil || len(x.L) == 0 {
			return sc.fail("statSize expects a *os.File")
		}
		ft.c.addPre("statinfo", "(declare-fun statinfo (Int) Int)\n(declare-fun infosize (Int) "+SBV(64)+")")
		return &sv{v: &Val{T: types.Typ[types.Int64], L: []Term{rawApp(SBV(64), "infosize", rawApp(SInt, "statinfo", x.L[0]))}}}
	case "sameArray":
		// sameArray(s, t): the two slices share their backing array
		a, b := sc.eval(e.Args[0]).v, sc.eval(e.Args[1]).v
		if a == nil || b == nil || !isSlice(a.T) || !isSlice(b.T) {
			return sc.fail("sameArray expects two slices")
		}
		return boolVal(mkEq(a.L[0], b.L[0]))
	case "off0":
		// off0(s): the slice view starts at index 0 of its backing array (true of every slice obtained from make/append)
		x := sc.eval(e.Args[0]).v
		if x == nil || !(isSlice(x.T) || isString(x.T)) {
			return sc.fail("off0 expects a slice")
		}
		return boolVal(mkEq(x.L[1], idxInt(0)))
	case "isNaN":
		return boolVal(app(SBool, "fp.isNaN", sc.eval(e.Args[0]).v.L[0]))
	case "isInf":
		return boolVal(app(SBool, "fp.isInfinite", sc.eval(e.Args[0]).v.L[0]))
	case "isNeg":
		return boolVal(app(SBool, "fp.isNegative", sc.eval(e.Args[0]).v.L[0]))
	case "isZero":
		return boolVal(app(SBool, "fp.isZero", sc.eval(e.Args[0]).v.L[0]))
	case "sameFloat": // structural equality (distinguishes +0/-0, NaN == NaN)
		a, b := sc.eval(e.Args[0]).v, sc.eval(e.Args[1]).v
		return boolVal(mkEq(a.L[0], b.L[0]))
	case "roundToAway":
		x := sc.eval(e.Args[0]).v
		eb, sb := sc.eval(e.Args[1]), sc.eval(e.Args[2])
		if eb.c == nil || sb.c == nil {
			return sc.fail("roundToAway expects constant format parameters")
		}
		return &sv{v: &Val{T: x.T, L: []Term{{x.L[0].S, fmt.Sprintf("((_ to_fp 8 24) RNE ((_ to_fp %d %d) RNA %s))", eb.c.Int64(), sb.c.Int64(), x.L[0].T)}}}}
	case "roundTo":
		// roundTo(f, eb, sb): f rounded (RNE, overflow to infinity) to the IEEE format with eb exponent and sb significand bits
		x := sc.eval(e.Args[0]).v
		eb, sb := sc.eval(e.Args[1]), sc.eval(e.Args[2])
		if eb.c == nil || sb.c == nil {
			return sc.fail("roundTo expects constant format parameters")
		}
		w, _ := isFloatType(x.T)
		e0, s0 := 8, 24
		if w == 64 {
			e0, s0 = 11, 53
		}
		return &sv{v: &Val{T: x.T, L: []Term{{x.L[0].S, fmt.Sprintf("((_ to_fp %d %d) RNE ((_ to_fp %d %d) RNE %s))", e0, s0, eb.c.Int64(), sb.c.Int64(), x.L[0].T)}}}}
	case "f32frombits":
		x := sc.eval(e.Args[0])
		v := sc.typed(x, types.Typ[types.Uint32])
		return &sv{v: &Val{T: types.Typ[types.Float32], L: []Term{{SF32, "((_ to_fp 8 24) " + v.L[0].T + ")"}}}}
	case "fresh":
		x := sc.eval(e.Args[0]).v
		lo := int64(allocBase)
		if sc.freshLo > 0 {
			lo = sc.freshLo
		}
		t := app(SBool, ">", x.L[0], intConst(lo))
		if sc.freshHi > 0 {
			t = mkAnd(t, app(SBool, "<=", x.L[0], intConst(sc.freshHi)))
		}
		return boolVal(t)
	case "isLE":
		x := sc.eval(e.Args[0]).v
		return boolVal(mkEq(x.L[0], intConst(leTag(ft.e))))
	case "isBE":
		x := sc.eval(e.Args[0]).v
		return boolVal(mkEq(x.L[0], intConst(beTag(ft.e))))
	case "dyn":
		// dyn(x, "T"): the value of dynamic type T carried by interface x (meaningful where typeIs(x, "T"))
		x := sc.eval(e.Args[0]).v
		t := sc.typeByName(e.Args[1].Name)
		if t == nil || len(x.L) != 2 {
			return sc.fail("dyn: unknown type %s or non-interface argument", e.Args[1].Name)
		}
		if isPointer(t) {
			return &sv{v: &Val{T: t, L: []Term{x.L[1]}}}
		}
		return &sv{v: ft.unbox(x.L[1], t, "dyn")}
	case "typeIs":
		x := sc.eval(e.Args[0]).v
		return boolVal(mkEq(x.L[0], intConst(int64(ft.e.typeID(e.Args[1].Name)))))
	}
	if sf := ft.e.specFuncs[name]; sf != nil {
		if len(sf.Params) != len(e.Args) {
			return sc.fail("%s expects %d arguments", name, len(sf.Params))
		}
		var args []*Val
		for i, a := range e.Args {
			x := sc.eval(a)
			pt := sc.typeByName(sf.Params[i].Type)
			if x.c != nil {
				if pt == nil {
					pt = types.Typ[types.Int]
				}
				args = append(args, sc.typed(x, pt))
			} else {
				args = append(args, x.v)
			}
		}
		if sf.SMT {
			var ts []Term
			for _, a := range args {
				if len(a.L) != 1 {
					return sc.fail("smt function %s: non-scalar argument", name)
				}
				ts = append(ts, a.L[0])
			}
			rt := sc.typeByName(sf.Ret)
			if rt == nil {
				return sc.fail("smt function %s: unknown return type %s", name, sf.Ret)
			}
			return &sv{v: &Val{T: rt, L: []Term{app(leavesOf(rt)[0].Sort, name, ts...)}}}
		}
		if sf.Opaque {
			rt := sc.typeByName(sf.Ret)
			if rt == nil || len(leavesOf(rt)) != 1 {
				return sc.fail("opaque function %s: unsupported return type %s", name, sf.Ret)
			}
			var ts []Term
			var sorts []string
			for _, a := range args {
				for _, l := range a.L {
					ts = append(ts, l)
					sorts = append(sorts, l.S)
				}
			}
			// an opaque function is an uninterpreted function of its argument VALUES: a slice or pointer argument would
			// pass only the reference, and the function would ignore writes to the memory behind it
			for i, a := range args {
				if a != nil && a.T != nil && (isSlice(a.T) || isPointer(a.T)) {
					return sc.fail("opaque function %s: parameter %d is a slice or pointer (opaque functions take scalars and strings only; memory contents would be ignored)", name, i)
				}
			}
			rs := leavesOf(rt)[0].Sort
			fn := "spec_" + name
			ft.c.addPre(fn, fmt.Sprintf("(declare-fun %s (%s) %s)", fn, strings.Join(sorts, " "), rs))
			apTerm := app(rs, fn, ts...)
			if !sc.revealed(name) {
				return &sv{v: &Val{T: rt, L: []Term{apTerm}}}
			}
			inq := ft.inQuant > 0
			var ap Term
			if !inq {
				ap = ft.c.Fresh("ap_"+name, rs)
				ft.c.Assume(ap, mkEq(ap, apTerm))
			}
			n := sc.child()
			n.depth = sc.depth + 1
			n.vars = map[string]*sv{}
			n.res = nil
			for i, p := range sf.Params {
				n.vars[p.Name] = &sv{v: args[i]}
			}
			r := n.eval(sf.Body)
			if n.err != nil && sc.err == nil {
				sc.err = n.err
			}
			rv := r.v
			if r.c != nil {
				rv = sc.typed(r, rt)
			}
			if inq {
				if rv != nil && len(rv.L) == 1 && rv.L[0].S == rs {
					return &sv{v: &Val{T: rt, L: []Term{rv.L[0]}}} // under a binder: the revealed definition itself
				}
				return &sv{v: &Val{T: rt, L: []Term{apTerm}}}
			}
			if rv != nil && len(rv.L) == 1 && rv.L[0].S == rs {
				ft.c.Assume(ap, mkEq(ap, rv.L[0]))
			}
			return &sv{v: &Val{T: rt, L: []Term{ap}}}
		}
		if sc.depth > 20 {
			return sc.fail("spec function recursion too deep in %s", name)
		}
		n := sc.child()
		n.depth = sc.depth + 1
		// spec function bodies see only their parameters (plus memory)
		n.vars = map[string]*sv{}
		n.res = nil
		for i, p := range sf.Params {
			n.vars[p.Name] = &sv{v: args[i]}
		}
		if sf.Body == nil {
			return sc.fail("spec function %s has no body", name)
		}
		r := n.eval(sf.Body)
		if n.err != nil && sc.err == nil {
			sc.err = n.err
		}
		if r.c != nil {
			rt := sc.typeByName(sf.Ret)
			if rt != nil {
				return &sv{v: sc.typed(r, rt)}
			}
		}
		return r
	}
	return sc.fail("unknown function %s in specification", name)
}

func (sc *Scope) convertVal(v *Val, to types.Type) *Val {
	fw, fsigned, fint := isIntType(v.T)
	tw, tsigned, tint := isIntType(to)
	if fint && tint {
		return &Val{T: to, L: []Term{convInt(v.L[0], fw, fsigned, tw, tsigned)}}
	}
	ffw, ffl := isFloatType(v.T)
	tfw, tfl := isFloatType(to)
	if ffl && tfl {
		if ffw == tfw {
			return &Val{T: to, L: v.L}
		}
		eb, sb := 11, 53
		if tfw == 32 {
			eb, sb = 8, 24
		}
		return &Val{T: to, L: []Term{{fpSortOf(tfw), fmt.Sprintf("((_ to_fp %d %d) RNE %s)", eb, sb, v.L[0].T)}}}
	}
	if fint && tfl {
		op := "to_fp_unsigned"
		if fsigned {
			op = "to_fp"
		}
		eb, sb := 11, 53
		if tfw == 32 {
			eb, sb = 8, 24
		}
		if gInt {
			return &Val{T: to, L: []Term{{fpSortOf(tfw), fmt.Sprintf("((_ to_fp %d %d) RNE (to_real %s))", eb, sb, v.L[0].T)}}}
		}
		return &Val{T: to, L: []Term{{fpSortOf(tfw), fmt.Sprintf("((_ %s %d %d) RNE %s)", op, eb, sb, v.L[0].T)}}}
	}
	sc.fail("unsupported conversion %s -> %s in specification", v.T, to)
	return v
}

// ---------------------------------------------------------------------------
// name resolution inside function bodies

func (fr *frame) resolver(li *loopInfo, over map[*ssa.Phi]*Val) func(string) *Val {
	return func(name string) *Val {
		// loop header phis
		if li != nil {
			for _, in := range li.head.Instrs {
				ph, ok := in.(*ssa.Phi)
				if !ok {
					break
				}
				if ph.Comment == name {
					if over != nil {
						if v, ok := over[ph]; ok {
							return v
						}
					}
					return fr.vals[ph]
				}
			}
		}
		// `nexti`: in a range loop, the next index to be processed (rangeindex+1 at the loop head)
		if li != nil && name == "nexti" {
			for _, in := range li.head.Instrs {
				ph, ok := in.(*ssa.Phi)
				if !ok {
					break
				}
				if ph.Comment == "rangeindex" {
					var pv *Val
					if over != nil {
						pv = over[ph]
					}
					if pv == nil {
						pv = fr.vals[ph]
					}
					if pv != nil {
						return &Val{T: ph.Type(), L: []Term{app(SIdx, "bvadd", pv.L[0], idxInt(1))}}
					}
				}
			}
		}
		// range loops: the key variable k denotes rangeindex+1 at the loop head (next index to process)
		if li != nil {
			for b := range li.body {
				for _, in := range b.Instrs {
					d, ok := in.(*ssa.DebugRef)
					if !ok || d.IsAddr || d.Object() == nil || d.Object().Name() != name {
						continue
					}
					bo, ok := d.X.(*ssa.BinOp)
					if !ok || bo.Op != token.ADD {
						continue
					}
					ph, ok := bo.X.(*ssa.Phi)
					if !ok || ph.Block() != li.head || ph.Comment != "rangeindex" {
						continue
					}
					var pv *Val
					if over != nil {
						pv = over[ph]
					}
					if pv == nil {
						pv = fr.vals[ph]
					}
					if pv == nil {
						continue
					}
					return &Val{T: ph.Type(), L: []Term{app(SIdx, "bvadd", pv.L[0], idxInt(1))}}
				}
			}
		}
		for _, p := range fr.fn.Params {
			if p.Name() == name {
				return fr.vals[p]
			}
		}
		for i, fv := range fr.fn.FreeVars {
			if fv.Name() == name && i < len(fr.free) {
				return fr.free[i]
			}
		}
		// debug references: latest value bound to a variable of that name whose definition dominates here
		// Several variables may share the name (e.g. the `i` of two consecutive loops): the one declared
		// last among those with a dominating definition wins — deterministic, and the innermost/most recent
		// declaration in straight-line code.
		var best ssa.Value
		var bestPos token.Pos = -1
		for obj, vs := range fr.dbg {
			if obj.Name() != name {
				continue
			}
			var cand ssa.Value
			for _, v := range vs {
				if in, ok := v.(ssa.Instruction); ok && fr.curBlock != nil {
					if in.Block() != fr.curBlock && !in.Block().Dominates(fr.curBlock) {
						continue
					}
				}
				cand = v
			}
			if cand != nil && obj.Pos() > bestPos {
				best, bestPos = cand, obj.Pos()
			}
		}
		if best != nil {
			return fr.val(best)
		}
		// address-taken local (arrays that are sliced, variables captured by closures): its current content
		var bestA ssa.Value
		bestPos = -1
		for obj, a := range fr.dbgAddr {
			if obj.Name() != name {
				continue
			}
			if in, ok := a.(ssa.Instruction); ok && fr.curBlock != nil {
				if in.Block() != fr.curBlock && !in.Block().Dominates(fr.curBlock) {
					continue
				}
			}
			if _, isPtr := a.Type().Underlying().(*types.Pointer); !isPtr || fr.vals[a] == nil {
				continue
			}
			if obj.Pos() > bestPos {
				bestA, bestPos = a, obj.Pos()
			}
		}
		if bestA != nil {
			return fr.loadFrom(fr.vals[bestA], bestA.Type().Underlying().(*types.Pointer).Elem(), token.NoPos)
		}
		return nil
	}
}

func (fr *frame) pkg() *types.Package {
	if fr.fn == nil {
		return fr.lemPkg
	}
	f := fr.fn
	for f.Parent() != nil {
		f = f.Parent()
	}
	if f.Pkg != nil {
		return f.Pkg.Pkg
	}
	if f.Object() != nil {
		return f.Object().Pkg()
	}
	return nil
}
