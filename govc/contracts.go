package main

// Contract files: comment-only Go files (build tag verif) named zz_contracts_verif.go.
// Blocks:
//   //@ func <Name>            contract of a function/method of this package
//   //@ pure <name>(<p> <T>, ...) <T> = <expr>     spec function (macro-expanded)
//   //@ smt <raw SMT-LIB line>                      preamble (declare-fun / define-fun-rec)
//   //@ smtfun <name>(<T>, ...) <T>                  Go-level signature of an smt-declared function
//   //@ lemma <name>                                 standalone obligation
// Clauses inside func blocks: requires / ensures / assigns / decreases / kinds / inline /
//   loop N: invariant E / loop N: decreases E / nonnil / pure
// A line that does not start with a keyword continues the previous clause.

import (
	"bufio"
	"fmt"
	"os"
	"path/filepath"
	"regexp"
	"strconv"
	"strings"
)

type Clause struct {
	NoAssume bool // `claims`: checked at the function's returns like an ensures, but never assumed at call sites
	Src  string
	E    *SExpr
	Line int
	File string
}

type LoopSpec struct {
	Invariants []*Clause
	Decreases  *Clause
}

type Contract struct {
	Func       string // qualified name, e.g. structures.(*WritableBTreeV2).InsertRecord
	Pkg        string
	Requires   []*Clause
	Ensures    []*Clause
	Loops      map[int]*LoopSpec
	Decreases  *Clause
	Kinds      []string // extra obligation kinds enabled for this function (e.g. nil)
	InlineOnly bool     // never use this contract at call sites (function is inlined)
	Assigns    []*Clause // locations this function may write: x[*], p.f, p.*, result[*] ...
	HasAssigns bool
	Abstracts  string // name of an opaque spec function f: callers may assume result == f(args); justified by a syntactic purity check of the body
	IntMode    bool // verified with mathematical integers + no-overflow obligations
	Reveal     map[string]bool // opaque spec functions whose definitions are visible in this contract's obligations
	NoPanic    bool // callers may assume the function does not panic under its preconditions (always true once verified)
	File       string
	Line       int
	Opaque     bool // callers use the contract only (default); if false and inlinable, still contract
}

type SpecFunc struct {
	Opaque bool
	Name   string
	Params []SpecParam
	Ret    string
	Body   *SExpr
	SMT    bool // declared in SMT preamble; call is emitted directly
	Pkg    string
}

type SpecParam struct{ Name, Type string }

type LemmaStep struct {
	Kind  string // requires | ensures | let
	C     *Clause
	Names []string // let: bound names
}

type Lemma struct {
	Name     string
	Pkg      string
	Vars     []SpecParam
	Requires []*Clause
	Ensures  []*Clause
	Steps    []LemmaStep
	Reveal   map[string]bool
	IntMode  bool
	Splits   []string // "x" (all values of an 8-bit variable) or "exp f" (biased exponent classes of a float32 variable)
	File     string
	Line     int
}

var reLoop = regexp.MustCompile(`^loop\s+(\d+)\s*:\s*(invariant|decreases)\s+(.*)$`)
var rePure = regexp.MustCompile(`^pure\s+(?:(opaque)\s+)?([A-Za-z_][A-Za-z0-9_]*)\s*\(([^)]*)\)\s*([A-Za-z0-9_\[\]\.\*]+)\s*=\s*(.*)$`)
var reSmtFun = regexp.MustCompile(`^smtfun\s+([A-Za-z_][A-Za-z0-9_]*)\s*\(([^)]*)\)\s*([A-Za-z0-9_\[\]\.]+)\s*$`)

func parseParams(s string) []SpecParam {
	var out []SpecParam
	for _, p := range strings.Split(s, ",") {
		f := strings.Fields(p)
		if len(f) == 2 {
			out = append(out, SpecParam{f[0], f[1]})
		} else if len(f) == 1 {
			out = append(out, SpecParam{"", f[0]})
		}
	}
	// "a, b uint64" style: propagate types backwards
	for i := len(out) - 2; i >= 0; i-- {
		if out[i].Name == "" && out[i].Type != "" && out[i+1].Name != "" {
			// single identifier without type: it is a name
			out[i].Name = out[i].Type
			out[i].Type = out[i+1].Type
		}
	}
	return out
}

func (e *Env) loadContracts() error {
	var files []string
	filepath.Walk(e.repo, func(p string, info os.FileInfo, err error) error {
		if err != nil {
			return nil
		}
		if info.IsDir() && (info.Name() == ".git" || info.Name() == "testdata") {
			return filepath.SkipDir
		}
		if !info.IsDir() && strings.HasPrefix(info.Name(), "zz_contracts") && strings.HasSuffix(info.Name(), "_verif.go") {
			files = append(files, p)
		}
		return nil
	})
	e.contractFiles = files
	for _, f := range files {
		if err := e.loadContractFile(f); err != nil {
			return err
		}
	}
	return nil
}

func (e *Env) loadContractFile(path string) error {
	fh, err := os.Open(path)
	if err != nil {
		return err
	}
	defer fh.Close()
	sc := bufio.NewScanner(fh)
	sc.Buffer(make([]byte, 1<<20), 1<<20)
	pkg := ""
	var cur *Contract
	var lem *Lemma
	var last *Clause
	lineNo := 0
	rel, _ := filepath.Rel(e.repo, path)
	finish := func() {
		cur, lem, last = nil, nil, nil
	}
	mkClause := func(src string) *Clause {
		return &Clause{Src: src, Line: lineNo, File: rel}
	}
	var all []*Clause
	for sc.Scan() {
		lineNo++
		line := strings.TrimSpace(sc.Text())
		if strings.HasPrefix(line, "package ") {
			pkg = strings.TrimSpace(strings.TrimPrefix(line, "package "))
			continue
		}
		if !strings.HasPrefix(line, "//@") {
			if line == "" || !strings.HasPrefix(line, "//") {
				finish()
			}
			continue
		}
		body := strings.TrimSpace(strings.TrimPrefix(line, "//@"))
		if body == "" {
			finish()
			continue
		}
		// mechanical scan for forbidden escape hatches
		low := strings.ToLower(body)
		if strings.HasPrefix(low, "assume ") || strings.HasPrefix(low, "trusted") || strings.HasPrefix(low, "admit") {
			e.assumeScan = append(e.assumeScan, fmt.Sprintf("%s:%d: %s", rel, lineNo, body))
			return fmt.Errorf("%s:%d: assume/trusted clauses are not accepted for repository functions", rel, lineNo)
		}
		switch {
		case strings.HasPrefix(body, "func "):
			finish()
			name := strings.TrimSpace(strings.TrimPrefix(body, "func "))
			cur = &Contract{Func: pkg + "." + name, Pkg: pkg, Loops: map[int]*LoopSpec{}, File: rel, Line: lineNo}
			if old, dup := e.contracts[cur.Func]; dup {
				return fmt.Errorf("%s:%d: duplicate contract for %s (first at %s:%d)", rel, lineNo, cur.Func, old.File, old.Line)
			}
			e.contracts[cur.Func] = cur
		case strings.HasPrefix(body, "guarded "):
			// guarded T by mu: shared fields of struct type T are protected by the mutex field T.mu
			finish()
			cur = nil
			f := strings.Fields(body)
			if len(f) != 4 || f[2] != "by" {
				return fmt.Errorf("%s:%d: malformed guarded declaration (want: guarded T by mu)", rel, lineNo)
			}
			e.guarded[pkg+"."+f[1]] = f[3]
		case strings.HasPrefix(body, "iface "):
			finish()
			name := strings.TrimSpace(strings.TrimPrefix(body, "iface "))
			cur = &Contract{Func: "iface:" + pkg + "." + name, Pkg: pkg, Loops: map[int]*LoopSpec{}, File: rel, Line: lineNo}
			e.contracts[cur.Func] = cur
		case strings.HasPrefix(body, "pure "):
			finish()
			m := rePure.FindStringSubmatch(body)
			if m == nil {
				return fmt.Errorf("%s:%d: malformed pure declaration", rel, lineNo)
			}
			sf := &SpecFunc{Name: m[2], Params: parseParams(m[3]), Ret: m[4], Pkg: pkg, Opaque: m[1] == "opaque"}
			cl := mkClause(m[5])
			last = cl
			all = append(all, cl)
			sfc := sf
			defer func() { sfc.Body = cl.E }()
			e.specFuncs[sf.Name] = sf
		case strings.HasPrefix(body, "smtfun "):
			finish()
			m := reSmtFun.FindStringSubmatch(body)
			if m == nil {
				return fmt.Errorf("%s:%d: malformed smtfun declaration", rel, lineNo)
			}
			e.specFuncs[m[1]] = &SpecFunc{Name: m[1], Params: parseParams(m[2]), Ret: m[3], SMT: true, Pkg: pkg}
		case strings.HasPrefix(body, "smt "):
			finish()
			e.smtPre = append(e.smtPre, strings.TrimSpace(strings.TrimPrefix(body, "smt ")))
		case strings.HasPrefix(body, "lemma "):
			finish()
			lem = &Lemma{Name: pkg + "." + strings.TrimSpace(strings.TrimPrefix(body, "lemma ")), Pkg: pkg, File: rel, Line: lineNo}
			e.lemmas = append(e.lemmas, lem)
		default:
			kw := strings.Fields(body)[0]
			rest := strings.TrimSpace(strings.TrimPrefix(body, kw))
			if cur == nil && lem == nil {
				if last != nil { // continuation of a pure body
					last.Src += " " + body
					continue
				}
				return fmt.Errorf("%s:%d: clause outside a block: %s", rel, lineNo, body)
			}
			switch kw {
			case "requires":
				cl := mkClause(rest)
				all = append(all, cl)
				last = cl
				if cur != nil {
					cur.Requires = append(cur.Requires, cl)
				} else {
					lem.Requires = append(lem.Requires, cl)
					lem.Steps = append(lem.Steps, LemmaStep{Kind: "requires", C: cl})
				}
			case "ensures", "claims":
				cl := mkClause(rest)
				cl.NoAssume = kw == "claims"
				all = append(all, cl)
				last = cl
				if cur != nil {
					cur.Ensures = append(cur.Ensures, cl)
				} else {
					lem.Ensures = append(lem.Ensures, cl)
					lem.Steps = append(lem.Steps, LemmaStep{Kind: "ensures", C: cl})
				}
			case "vars":
				if lem == nil {
					return fmt.Errorf("%s:%d: vars only in lemma blocks", rel, lineNo)
				}
				lem.Vars = append(lem.Vars, parseParams(rest)...)
				last = nil
			case "decreases":
				cl := mkClause(rest)
				all = append(all, cl)
				last = cl
				if cur != nil {
					cur.Decreases = cl
				}
			case "kinds":
				cur.Kinds = append(cur.Kinds, strings.Fields(strings.ReplaceAll(rest, ",", " "))...)
				last = nil
			case "abstracts":
				cur.Abstracts = strings.TrimSpace(rest)
				last = nil
			case "mode":
				on := strings.TrimSpace(rest) == "int"
				if cur != nil {
					cur.IntMode = on
				} else {
					lem.IntMode = on
				}
				last = nil
			case "split":
				if lem == nil {
					return fmt.Errorf("%s:%d: split only in lemma blocks", rel, lineNo)
				}
				lem.Splits = append(lem.Splits, rest)
				last = nil
			case "let":
				if lem == nil {
					return fmt.Errorf("%s:%d: let only in lemma blocks", rel, lineNo)
				}
				i := strings.Index(rest, ":=")
				if i < 0 {
					return fmt.Errorf("%s:%d: malformed let", rel, lineNo)
				}
				var names []string
				for _, n := range strings.Split(rest[:i], ",") {
					names = append(names, strings.TrimSpace(n))
				}
				cl := mkClause(strings.TrimSpace(rest[i+2:]))
				all = append(all, cl)
				last = cl
				lem.Steps = append(lem.Steps, LemmaStep{Kind: "let", C: cl, Names: names})
			case "reveal":
				rv := map[string]bool{}
				for _, n := range strings.Fields(strings.ReplaceAll(rest, ",", " ")) {
					rv[n] = true
				}
				if cur != nil {
					if cur.Reveal == nil {
						cur.Reveal = map[string]bool{}
					}
					for k := range rv {
						cur.Reveal[k] = true
					}
				} else {
					if lem.Reveal == nil {
						lem.Reveal = map[string]bool{}
					}
					for k := range rv {
						lem.Reveal[k] = true
					}
				}
				last = nil
			case "inline":
				cur.InlineOnly = true
				last = nil
			case "assigns":
				cur.HasAssigns = true
				for _, a := range strings.Split(rest, ",") {
					if a = strings.TrimSpace(a); a != "" && a != "nothing" {
						cl := mkClause(a)
						all = append(all, cl)
						cur.Assigns = append(cur.Assigns, cl)
					}
				}
				last = nil
			case "loop":
				m := reLoop.FindStringSubmatch(body)
				if m == nil {
					return fmt.Errorf("%s:%d: malformed loop clause", rel, lineNo)
				}
				n, _ := strconv.Atoi(m[1])
				ls := cur.Loops[n]
				if ls == nil {
					ls = &LoopSpec{}
					cur.Loops[n] = ls
				}
				cl := mkClause(m[3])
				all = append(all, cl)
				last = cl
				if m[2] == "invariant" {
					ls.Invariants = append(ls.Invariants, cl)
				} else {
					ls.Decreases = cl
				}
			default:
				if last == nil {
					return fmt.Errorf("%s:%d: unknown clause %q", rel, lineNo, kw)
				}
				last.Src += " " + body
			}
		}
	}
	for _, cl := range all {
		ex, err := parseSpec(cl.Src)
		if err != nil {
			return fmt.Errorf("%s:%d: %v", rel, cl.Line, err)
		}
		cl.E = ex
	}
	return nil
}
