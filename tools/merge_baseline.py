#!/usr/bin/env python3
"""Merge the output of `govc check --property P --baseline` into unclaimed.json.
Only used by hand while building the machinery (never by a check)."""
import json, sys, re
path = '/verif/unclaimed.json'
try:
    u = json.load(open(path))
except Exception:
    u = {"obligations": {}}
prop = sys.argv[1]
for line in sys.stdin:
    m = re.match(r'\s*("(?:[^"\\]|\\.)*"): ("(?:[^"\\]|\\.)*"),?\s*$', line)
    if not m:
        continue
    name = json.loads(m.group(1)); st = json.loads(m.group(2))
    if name not in u["obligations"]:
        u["obligations"][name] = "%s: not discharged on the unchanged tree (%s); untriaged — not claimed" % (prop, st)
json.dump(u, open(path, 'w'), indent=1, sort_keys=True)
print(len(u["obligations"]), "unclaimed obligations")
