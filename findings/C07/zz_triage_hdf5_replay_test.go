package hdf5

// Replays of the defects found while triaging the no-panic obligations of the hyperslab / chunk readers.
// Every test builds a small, well-formed file with the library's own writer, patches a few bytes of the dataset's
// object header (what an attacker-supplied file may contain), opens it with Open and calls the public reader.
// Each test PASSES while the defect is present (the panic is recovered and logged) and fails once it is repaired.

import (
	"encoding/binary"
	"os"
	"path/filepath"
	"runtime"
	"runtime/debug"
	"strings"
	"testing"
)

// triageMsg is the position of one message of a version-2 object header inside the file image.
type triageMsg struct {
	typ     byte
	hdrOff  int // offset of the message header (type byte)
	dataOff int // offset of the message body
	size    int
}

// triageWriteFile writes a file with one dataset "/data" and returns its path.
func triageWriteFile(t *testing.T, dtype Datatype, dims []uint64, data interface{}, attr bool, opts ...DatasetOption) string {
	t.Helper()
	filename := filepath.Join(t.TempDir(), "triage.h5")
	fw, err := CreateForWrite(filename, CreateTruncate)
	if err != nil {
		t.Fatalf("CreateForWrite: %v", err)
	}
	dw, err := fw.CreateDataset("/data", dtype, dims, opts...)
	if err != nil {
		t.Fatalf("CreateDataset: %v", err)
	}
	if err := dw.Write(data); err != nil {
		t.Fatalf("Write: %v", err)
	}
	if attr {
		if err := dw.WriteAttribute("a", []int64{1, 2, 3, 4, 5, 6, 7, 8}); err != nil {
			t.Fatalf("WriteAttribute: %v", err)
		}
	}
	if err := fw.Close(); err != nil {
		t.Fatalf("Close: %v", err)
	}
	return filename
}

// triageDatasetAddr opens the file and returns the object header address of "/data".
func triageDatasetAddr(t *testing.T, filename string) uint64 {
	t.Helper()
	f, err := Open(filename)
	if err != nil {
		t.Fatalf("Open (unpatched): %v", err)
	}
	defer func() { _ = f.Close() }()
	ds, ok := findDatasetByName(f, "data")
	if !ok {
		t.Fatalf("dataset not found")
	}
	return ds.address
}

// triageMessages lists the messages of the first chunk of the version-2 object header at addr.
func triageMessages(t *testing.T, img []byte, addr uint64) []triageMsg {
	t.Helper()
	p := int(addr)
	if string(img[p:p+4]) != "OHDR" || img[p+4] != 2 {
		t.Fatalf("no v2 object header at %d", addr)
	}
	flags := img[p+5]
	p += 6
	if flags&0x20 != 0 {
		p += 16
	}
	if flags&0x10 != 0 {
		p += 4
	}
	szLen := 1 << (flags & 3)
	chunk := 0
	for k := 0; k < szLen; k++ {
		chunk |= int(img[p+k]) << (8 * k)
	}
	p += szLen
	end := p + chunk
	var out []triageMsg
	for p+4 <= end && p+4 <= len(img) {
		m := triageMsg{typ: img[p], hdrOff: p, size: int(binary.LittleEndian.Uint16(img[p+1 : p+3]))}
		p += 4
		if flags&0x04 != 0 {
			p += 2
		}
		m.dataOff = p
		p += m.size
		out = append(out, m)
	}
	return out
}

func triageFind(t *testing.T, msgs []triageMsg, typ byte) triageMsg {
	t.Helper()
	for _, m := range msgs {
		if m.typ == typ {
			return m
		}
	}
	t.Fatalf("message type %d not found in %+v", typ, msgs)
	return triageMsg{}
}

// triageOpenPatched applies patch to the file image, writes it back and opens the dataset.
func triageOpenPatched(t *testing.T, filename string, patch func(img []byte, msgs []triageMsg)) (*File, *Dataset) {
	t.Helper()
	addr := triageDatasetAddr(t, filename)
	img, err := os.ReadFile(filename)
	if err != nil {
		t.Fatal(err)
	}
	patch(img, triageMessages(t, img, addr))
	if err := os.WriteFile(filename, img, 0o600); err != nil {
		t.Fatal(err)
	}
	f, err := Open(filename)
	if err != nil {
		t.Fatalf("Open (patched): %v", err)
	}
	ds, ok := findDatasetByName(f, "data")
	if !ok {
		t.Fatalf("dataset not found in patched file")
	}
	return f, ds
}

// triageExpectPanic runs fn and requires a panic whose message contains want, raised inside function where.
func triageExpectPanic(t *testing.T, where, want string, fn func() (interface{}, error)) {
	t.Helper()
	defer func() {
		r := recover()
		if r == nil {
			return
		}
		msg := ""
		switch v := r.(type) {
		case error:
			msg = v.Error()
		case string:
			msg = v
		}
		if !strings.Contains(msg, want) {
			t.Fatalf("panic %q does not contain %q", msg, want)
		}
		if stack := string(debug.Stack()); !strings.Contains(stack, where+"(") {
			t.Fatalf("panic %q raised outside %s:\n%s", msg, where, stack)
		}
		t.Logf("REPRODUCED: panic in %s: %s", where, msg)
	}()
	res, err := fn()
	t.Fatalf("no panic: result=%T err=%v", res, err)
}

// The dataspace message claims 2^61 elements; the contiguous 1-D reader computes byteCount = 2^61*8 = 0 (mod 2^64),
// reads nothing, and convertBytesToFloat64Direct allocates make([]float64, 2^61) before looking at len(rawData).
func TestTriage_convertBytesToFloat64Direct_1(t *testing.T) {
	filename := triageWriteFile(t, Float64, []uint64{4}, []float64{1, 2, 3, 4}, false)
	f, ds := triageOpenPatched(t, filename, func(img []byte, msgs []triageMsg) {
		m := triageFind(t, msgs, 1) // dataspace v1: 8 bytes header, then dims[0]
		binary.LittleEndian.PutUint64(img[m.dataOff+8:], 1<<61)
	})
	defer func() { _ = f.Close() }()
	triageExpectPanic(t, "convertBytesToFloat64Direct", "makeslice: len out of range", func() (interface{}, error) {
		return ds.ReadSlice([]uint64{0}, []uint64{1 << 61})
	})
}

var _ = runtime.GC

// The datatype message claims an element size of 2^32-1 bytes and the dataspace 2^20 elements: the 1-D contiguous reader
// allocates make([]byte, outputElements*elementSize) = 2^52 bytes without comparing it with the layout's data size.
func TestTriage_readContiguousOptimized_1(t *testing.T) {
	filename := triageWriteFile(t, Float64, []uint64{4}, []float64{1, 2, 3, 4}, false)
	f, ds := triageOpenPatched(t, filename, func(img []byte, msgs []triageMsg) {
		m := triageFind(t, msgs, 1)
		binary.LittleEndian.PutUint64(img[m.dataOff+8:], 1<<20)
		dt := triageFind(t, msgs, 3) // datatype: class/version/bits (4 bytes), size (4 bytes)
		binary.LittleEndian.PutUint32(img[dt.dataOff+4:], 0xFFFFFFFF)
	})
	defer func() { _ = f.Close() }()
	triageExpectPanic(t, "readContiguousOptimized", "makeslice: len out of range", func() (interface{}, error) {
		return ds.ReadSlice([]uint64{0}, []uint64{1 << 20})
	})
}

// 274177 * 67280421310721 = 2^64 + 1: calculateHyperslabOutputSize wraps to 1, the output buffer holds one element,
// and the element loop of readContiguous2DOptimized writes the second element behind it.
func TestTriage_readContiguous2DOptimized_1(t *testing.T) {
	filename := triageWriteFile(t, Float64, []uint64{2, 2}, []float64{1, 2, 3, 4}, false)
	f, ds := triageOpenPatched(t, filename, func(img []byte, msgs []triageMsg) {
		m := triageFind(t, msgs, 1)
		binary.LittleEndian.PutUint64(img[m.dataOff+8:], 274177)
		binary.LittleEndian.PutUint64(img[m.dataOff+16:], 67280421310722)
	})
	defer func() { _ = f.Close() }()
	triageExpectPanic(t, "readContiguous2DOptimized", "slice bounds out of range", func() (interface{}, error) {
		return ds.ReadHyperslab(&HyperslabSelection{
			Start: []uint64{0, 0},
			Count: []uint64{1, 1},
			Block: []uint64{274177, 67280421310721}, // inside the dataset, accepted by validateHyperslabSelection
		})
	})
}

// Same wrap-around with compact storage: extractHyperslabFromRawData allocates one element, extractHyperslabRecursive
// copies every element that lies inside the (file-supplied) compact data and runs past the output buffer.
func TestTriage_extractHyperslabRecursive_1(t *testing.T) {
	filename := triageWriteFile(t, Int32, []uint64{2, 2}, []int32{1, 2, 3, 4}, false)
	f, ds := triageOpenPatched(t, filename, func(img []byte, msgs []triageMsg) {
		m := triageFind(t, msgs, 1)
		binary.LittleEndian.PutUint64(img[m.dataOff+8:], 274177)
		binary.LittleEndian.PutUint64(img[m.dataOff+16:], 67280421310721)
		l := triageFind(t, msgs, 8) // layout v3 contiguous (18 bytes) -> v3 compact: class 0, size(2), data
		if l.size < 16 {
			t.Fatalf("layout message too small: %d", l.size)
		}
		img[l.dataOff+1] = 0
		binary.LittleEndian.PutUint16(img[l.dataOff+2:], 12)
		for k := 0; k < 12; k++ {
			img[l.dataOff+4+k] = byte(k)
		}
	})
	defer func() { _ = f.Close() }()
	triageExpectPanic(t, "extractHyperslabRecursive", "slice bounds out of range", func() (interface{}, error) {
		return ds.ReadHyperslab(&HyperslabSelection{
			Start: []uint64{0, 0},
			Count: []uint64{1, 1},
			Block: []uint64{274177, 67280421310721},
		})
	})
}

// An object header with TWO dataspace messages: ReadHyperslab validates the selection against the FIRST one
// (loop with break), readHyperslab/extractHyperslabMessages then reads with the LAST one. Here the first says rank 1
// (4 elements), the second rank 2 (2x2): the rank-1 selection is accepted and isContiguousSelection indexes sel.Count[1].
func TestTriage_ReadHyperslab_1(t *testing.T) {
	filename := triageWriteFile(t, Float64, []uint64{4}, []float64{1, 2, 3, 4}, true)
	f, ds := triageOpenPatched(t, filename, func(img []byte, msgs []triageMsg) {
		a := triageFind(t, msgs, 12) // the attribute message becomes a second dataspace message
		if a.size < 24 {
			t.Fatalf("attribute message too small: %d", a.size)
		}
		img[a.hdrOff] = 1
		body := img[a.dataOff : a.dataOff+a.size]
		for k := range body {
			body[k] = 0
		}
		body[0], body[1] = 1, 2 // version 1, rank 2
		binary.LittleEndian.PutUint64(body[8:], 2)
		binary.LittleEndian.PutUint64(body[16:], 2)
	})
	defer func() { _ = f.Close() }()
	triageExpectPanic(t, "isContiguousSelection", "index out of range [1] with length 1", func() (interface{}, error) {
		return ds.ReadHyperslab(&HyperslabSelection{Start: []uint64{0}, Count: []uint64{4}})
	})
}

// Same file shape through ReadSlice (it has its own copy of the "first dataspace message" loop).
func TestTriage_ReadSlice_1(t *testing.T) {
	filename := triageWriteFile(t, Float64, []uint64{4}, []float64{1, 2, 3, 4}, true)
	f, ds := triageOpenPatched(t, filename, func(img []byte, msgs []triageMsg) {
		a := triageFind(t, msgs, 12)
		img[a.hdrOff] = 1
		body := img[a.dataOff : a.dataOff+a.size]
		for k := range body {
			body[k] = 0
		}
		body[0], body[1] = 1, 2
		binary.LittleEndian.PutUint64(body[8:], 2)
		binary.LittleEndian.PutUint64(body[16:], 2)
	})
	defer func() { _ = f.Close() }()
	triageExpectPanic(t, "isContiguousSelection", "index out of range [1] with length 1", func() (interface{}, error) {
		return ds.ReadSlice([]uint64{0}, []uint64{4})
	})
}

// triageChunkedFile: 1-D float64 dataset of 4 elements in two chunks of 2 (layout v3, chunk B-tree v1).
func triageChunkedFile(t *testing.T) string {
	t.Helper()
	return triageWriteFile(t, Float64, []uint64{4}, []float64{1, 2, 3, 4}, false, WithChunkDims([]uint64{2}))
}

// Layout v3, chunked: version, class, dimensionality (1 byte), B-tree address (8), chunk dims (4 bytes each).
// A chunk dimension of 0 in the file: findOverlappingChunks divides by it (ParseBTreeV1Node, which rejects a zero
// chunk dimension, runs only afterwards).
func TestTriage_readHyperslabChunked_1(t *testing.T) {
	f, ds := triageOpenPatched(t, triageChunkedFile(t), func(img []byte, msgs []triageMsg) {
		l := triageFind(t, msgs, 8)
		if img[l.dataOff+1] != 2 || img[l.dataOff+2] != 1 {
			t.Fatalf("unexpected layout message % x", img[l.dataOff:l.dataOff+l.size])
		}
		binary.LittleEndian.PutUint32(img[l.dataOff+11:], 0)
	})
	defer func() { _ = f.Close() }()
	triageExpectPanic(t, "findOverlappingChunks", "integer divide by zero", func() (interface{}, error) {
		return ds.ReadSlice([]uint64{0}, []uint64{4})
	})
}

// Chunk dimensionality 0 in the layout message, dataspace rank 1: findOverlappingChunks indexes chunkDims[0].
func TestTriage_readHyperslabChunked_2(t *testing.T) {
	f, ds := triageOpenPatched(t, triageChunkedFile(t), func(img []byte, msgs []triageMsg) {
		l := triageFind(t, msgs, 8)
		img[l.dataOff+2] = 0
	})
	defer func() { _ = f.Close() }()
	triageExpectPanic(t, "findOverlappingChunks", "index out of range [0] with length 0", func() (interface{}, error) {
		return ds.ReadHyperslab(&HyperslabSelection{Start: []uint64{0}, Count: []uint64{4}})
	})
}

// Dataspace rank 2 (the 16-byte version-1 message then holds two 4-byte dimensions), chunk rank 1: the chunk keys have
// one coordinate and collectChunkCoordinates slices chunk.Key.Scaled[:2].
func TestTriage_collectChunkCoordinates_1(t *testing.T) {
	f, ds := triageOpenPatched(t, triageChunkedFile(t), func(img []byte, msgs []triageMsg) {
		m := triageFind(t, msgs, 1)
		img[m.dataOff+1] = 2
	})
	defer func() { _ = f.Close() }()
	triageExpectPanic(t, "collectChunkCoordinates", "slice bounds out of range [:2] with capacity 1", func() (interface{}, error) {
		return ds.ChunkIterator()
	})
}

// The B-tree key of the first chunk claims 256 MiB of stored data (the field is a uint32: up to 4 GiB per chunk).
// extractFromChunk allocates that much before the read fails at the end of the 2.4 kB file.
func TestTriage_extractFromChunk_1(t *testing.T) {
	const claimed = 256 << 20
	var size int
	f, ds := triageOpenPatched(t, triageChunkedFile(t), func(img []byte, msgs []triageMsg) {
		l := triageFind(t, msgs, 8)
		node := int(binary.LittleEndian.Uint64(img[l.dataOff+3:]))
		if string(img[node:node+4]) != "TREE" {
			t.Fatalf("no B-tree node at %d", node)
		}
		// node header: signature, type, level, entries used (8 bytes), two sibling addresses (16 bytes);
		// then key 0 (nbytes, filter mask, one coordinate: 16 bytes), child 0 (8 bytes), key 1, ...
		binary.LittleEndian.PutUint32(img[node+24:], claimed) // key 0: nbytes
		binary.LittleEndian.PutUint32(img[node+48:], claimed) // key 1: nbytes
		size = len(img)
	})
	defer func() { _ = f.Close() }()
	var before, after runtime.MemStats
	runtime.ReadMemStats(&before)
	res, err := ds.ReadSlice([]uint64{0}, []uint64{4})
	runtime.ReadMemStats(&after)
	grown := after.TotalAlloc - before.TotalAlloc
	if grown < claimed {
		t.Fatalf("no oversized allocation: %d bytes allocated, result=%v err=%v", grown, res, err)
	}
	t.Logf("REPRODUCED: file of %d bytes made extractFromChunk allocate %d bytes (err=%v)", size, grown, err)
}

// Chunk dimensions 2^30 x 2^31 in the layout message (dataspace likewise): for the valid one-element selection at
// (2^30-1, 2^31-1) the offset inside the chunk is 2^61-1 elements, srcOffset = 2^64-8, and the guard
// `srcOffset+elementSize <= len(chunkData)` wraps to 0 <= 32: chunkData[2^64-8 : 0] is sliced.
func TestTriage_extractChunkPortionRecursive_1(t *testing.T) {
	filename := triageWriteFile(t, Float64, []uint64{2, 2}, []float64{1, 2, 3, 4}, false, WithChunkDims([]uint64{2, 2}))
	f, ds := triageOpenPatched(t, filename, func(img []byte, msgs []triageMsg) {
		m := triageFind(t, msgs, 1)
		binary.LittleEndian.PutUint64(img[m.dataOff+8:], 1<<30)
		binary.LittleEndian.PutUint64(img[m.dataOff+16:], 1<<31)
		l := triageFind(t, msgs, 8)
		if img[l.dataOff+1] != 2 || img[l.dataOff+2] != 2 {
			t.Fatalf("unexpected layout message % x", img[l.dataOff:l.dataOff+l.size])
		}
		binary.LittleEndian.PutUint32(img[l.dataOff+11:], 1<<30)
		binary.LittleEndian.PutUint32(img[l.dataOff+15:], 1<<31)
	})
	defer func() { _ = f.Close() }()
	triageExpectPanic(t, "extractChunkPortionRecursive", "slice bounds out of range", func() (interface{}, error) {
		return ds.ReadHyperslab(&HyperslabSelection{
			Start: []uint64{1<<30 - 1, 1<<31 - 1},
			Count: []uint64{1, 1},
		})
	})
}

// Compact storage, dataspace 2^30 x 2^31: for the valid one-element selection at (2^30-1, 2^31-1) the linear offset is
// 2^61-1, byteOffset = 2^64-8, and the guard `byteOffset+elementSize > len(rawData)` wraps: rawData[2^64-8 : 0].
func TestTriage_extractHyperslabRecursive_2(t *testing.T) {
	filename := triageWriteFile(t, Float64, []uint64{2, 2}, []float64{1, 2, 3, 4}, false)
	f, ds := triageOpenPatched(t, filename, func(img []byte, msgs []triageMsg) {
		m := triageFind(t, msgs, 1)
		binary.LittleEndian.PutUint64(img[m.dataOff+8:], 1<<30)
		binary.LittleEndian.PutUint64(img[m.dataOff+16:], 1<<31)
		l := triageFind(t, msgs, 8)
		img[l.dataOff+1] = 0 // compact
		binary.LittleEndian.PutUint16(img[l.dataOff+2:], 14)
	})
	defer func() { _ = f.Close() }()
	triageExpectPanic(t, "extractHyperslabRecursive", "slice bounds out of range", func() (interface{}, error) {
		return ds.ReadHyperslab(&HyperslabSelection{
			Start: []uint64{1<<30 - 1, 1<<31 - 1},
			Count: []uint64{1, 1},
		})
	})
}

// Rank 3, dataspace 2^20 x 2^20 x 2^20: the 8 corner elements are a valid selection; readContiguousRowByRow allocates
// the bounding box of the selection, make([]byte, 2^60*8).
func TestTriage_readContiguousRowByRow_1(t *testing.T) {
	filename := triageWriteFile(t, Float64, []uint64{2, 2, 2}, []float64{1, 2, 3, 4, 5, 6, 7, 8}, false)
	f, ds := triageOpenPatched(t, filename, func(img []byte, msgs []triageMsg) {
		m := triageFind(t, msgs, 1)
		for k := 0; k < 3; k++ {
			binary.LittleEndian.PutUint64(img[m.dataOff+8+8*k:], 1<<20)
		}
	})
	defer func() { _ = f.Close() }()
	triageExpectPanic(t, "readContiguousRowByRow", "makeslice: len out of range", func() (interface{}, error) {
		return ds.ReadHyperslab(&HyperslabSelection{
			Start:  []uint64{0, 0, 0},
			Count:  []uint64{2, 2, 2},
			Stride: []uint64{1<<20 - 1, 1<<20 - 1, 1<<20 - 1},
		})
	})
}

// The other three converters have the same unchecked make([]float64, numElements).
func triageConvert(t *testing.T, dtype Datatype, data interface{}, elems uint64, where string) {
	t.Helper()
	filename := triageWriteFile(t, dtype, []uint64{4}, data, false)
	f, ds := triageOpenPatched(t, filename, func(img []byte, msgs []triageMsg) {
		m := triageFind(t, msgs, 1)
		binary.LittleEndian.PutUint64(img[m.dataOff+8:], elems)
	})
	defer func() { _ = f.Close() }()
	triageExpectPanic(t, where, "makeslice: len out of range", func() (interface{}, error) {
		return ds.ReadSlice([]uint64{0}, []uint64{elems})
	})
}

func TestTriage_convertBytesToFloat32AsFloat64_1(t *testing.T) {
	triageConvert(t, Float32, []float32{1, 2, 3, 4}, 1<<62, "convertBytesToFloat32AsFloat64")
}

func TestTriage_convertBytesToInt32AsFloat64_1(t *testing.T) {
	triageConvert(t, Int32, []int32{1, 2, 3, 4}, 1<<62, "convertBytesToInt32AsFloat64")
}

func TestTriage_convertBytesToInt64AsFloat64_1(t *testing.T) {
	triageConvert(t, Int64, []int64{1, 2, 3, 4}, 1<<61, "convertBytesToInt64AsFloat64")
}

// Chunk size 1 in the layout message, dataspace 2^50 elements: one valid block over the whole dataset overlaps 2^50
// chunks and generateChunkCoordinates allocates make([][]uint64, 0, 2^50).
func TestTriage_readHyperslabChunked_3(t *testing.T) {
	f, ds := triageOpenPatched(t, triageChunkedFile(t), func(img []byte, msgs []triageMsg) {
		m := triageFind(t, msgs, 1)
		binary.LittleEndian.PutUint64(img[m.dataOff+8:], 1<<50)
		l := triageFind(t, msgs, 8)
		binary.LittleEndian.PutUint32(img[l.dataOff+11:], 1)
	})
	defer func() { _ = f.Close() }()
	triageExpectPanic(t, "generateChunkCoordinates", "makeslice: cap out of range", func() (interface{}, error) {
		return ds.ReadHyperslab(&HyperslabSelection{Start: []uint64{0}, Count: []uint64{1}, Block: []uint64{1 << 50}})
	})
}

// Element size 2^32-1 in the datatype message, 2^20 elements in the dataspace, compact storage:
// extractHyperslabFromRawData allocates make([]byte, 2^20*(2^32-1)) although the compact data holds 14 bytes.
func TestTriage_extractHyperslabFromRawData_1(t *testing.T) {
	filename := triageWriteFile(t, Float64, []uint64{4}, []float64{1, 2, 3, 4}, false)
	f, ds := triageOpenPatched(t, filename, func(img []byte, msgs []triageMsg) {
		m := triageFind(t, msgs, 1)
		binary.LittleEndian.PutUint64(img[m.dataOff+8:], 1<<20)
		dt := triageFind(t, msgs, 3)
		binary.LittleEndian.PutUint32(img[dt.dataOff+4:], 0xFFFFFFFF)
		l := triageFind(t, msgs, 8)
		img[l.dataOff+1] = 0 // compact
		binary.LittleEndian.PutUint16(img[l.dataOff+2:], 14)
	})
	defer func() { _ = f.Close() }()
	triageExpectPanic(t, "extractHyperslabFromRawData", "makeslice: len out of range", func() (interface{}, error) {
		return ds.ReadSlice([]uint64{0}, []uint64{1 << 20})
	})
}

// Same element size with chunked storage (one chunk of 2^20 elements): readHyperslabChunked allocates the output buffer
// make([]byte, 2^20*(2^32-1)) after the chunk index has been read.
func TestTriage_readHyperslabChunked_4(t *testing.T) {
	f, ds := triageOpenPatched(t, triageChunkedFile(t), func(img []byte, msgs []triageMsg) {
		m := triageFind(t, msgs, 1)
		binary.LittleEndian.PutUint64(img[m.dataOff+8:], 1<<20)
		dt := triageFind(t, msgs, 3)
		binary.LittleEndian.PutUint32(img[dt.dataOff+4:], 0xFFFFFFFF)
		l := triageFind(t, msgs, 8)
		binary.LittleEndian.PutUint32(img[l.dataOff+11:], 1<<20)
	})
	defer func() { _ = f.Close() }()
	triageExpectPanic(t, "readHyperslabChunked", "makeslice: len out of range", func() (interface{}, error) {
		return ds.ReadSlice([]uint64{0}, []uint64{1 << 20})
	})
}

// Same element size, rank 2, a strided (non-contiguous) selection: readContiguousRowByRow allocates
// make([]byte, outputElements*elementSize) = 2^18*(2^32-1) bytes (readContiguous2DOptimized would repeat the same
// allocation; it is only reached through this one).
func TestTriage_readContiguousRowByRow_2(t *testing.T) {
	filename := triageWriteFile(t, Float64, []uint64{2, 2}, []float64{1, 2, 3, 4}, false)
	f, ds := triageOpenPatched(t, filename, func(img []byte, msgs []triageMsg) {
		m := triageFind(t, msgs, 1)
		binary.LittleEndian.PutUint64(img[m.dataOff+8:], 1<<10)
		binary.LittleEndian.PutUint64(img[m.dataOff+16:], 1<<10)
		dt := triageFind(t, msgs, 3)
		binary.LittleEndian.PutUint32(img[dt.dataOff+4:], 0xFFFFFFFF)
	})
	defer func() { _ = f.Close() }()
	triageExpectPanic(t, "readContiguousRowByRow", "makeslice: len out of range", func() (interface{}, error) {
		return ds.ReadHyperslab(&HyperslabSelection{
			Start: []uint64{0, 0}, Count: []uint64{1 << 9, 1 << 9}, Stride: []uint64{2, 2},
		})
	})
}
