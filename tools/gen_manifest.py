#!/usr/bin/env python3
"""Regenerates /verif/MANIFEST.json from the table below (hand-maintained)."""
import json, subprocess
props=[json.loads(l) for l in open('/verif/properties.jsonl')]
ids=[p['id'] for p in props]
SETUP="cd /verif/govc && PATH=/opt/veriftools/go1.26.8/bin:$PATH GOTOOLCHAIN=local GOFLAGS=-mod=vendor GOPROXY=off GOCACHE=${GOCACHE:-/tmp/govc-gocache} go build -o ../bin/govc ."
TRUST=("Trusted base: the govc VC generator itself (SSA->SMT translation, memory model, loop cutting, contract evaluator); go/types+go/ssa as front end; z3 5.1.0 / z3 4.8.12 / cvc5 1.0.3; "
       "stdlib contracts listed in the evidence (encoding/binary, io.ReaderAt, errors/fmt, math bit casts, crc32 uninterpreted); slices/strings bounded by 2^40 and slice arguments not partially overlapping. "
       "Obligations listed in /verif/unclaimed.json are NOT proved and not counted; known findings are listed in /verif/known_findings.json. ")
claimed={
 "C03":{"text":"Proof, on the real LocalHeap and SymbolTableNode code, of exact error conditions (string does not fit / node full), 'an error changes nothing', and the success postconditions (returned offset equals the old used length, bytes and terminator stored, earlier bytes and entries unchanged), for all inputs and histories (representation invariants lhWF / stWF preserved).",
        "note":TRUST+"Only the local-heap / symbol-table-node kernels of group linking are decided. Uniqueness of names within a group is NOT provable of this code (nothing checks it) and is not claimed; the tree after reopen, dense groups, link kinds and linkToParent's write ordering are not decided.",
        "technique":"contract-based deductive verification: representation invariants and pre/postconditions in mathematical-integer mode, SMT","ref":"I.3 / 3 C03"},
 "C08":{"text":"Proof of the shuffle filter's element-wise mapping result[b*n+e] == data[e*s+b] and of its inverse (nested-loop invariants), length preservation and the exact error condition; Fletcher-32 filter appends 4 bytes, keeps the payload, Remove returns exactly the prefix or an error; round-trip lemmas; single-byte-alteration detection proved for payloads up to 4 bytes (bounded, labelled).",
        "note":TRUST+"Deflate/bzip2/LZF losslessness, reader/writer container agreement and the pipeline message are not decided. Fletcher-32 corruption detection is BOUNDED (payload <= 4 bytes, all positions) and not counted as a proof of the unbounded statement.",
        "technique":"contract-based deductive verification: loop invariants + lemma blocks over the real filter code, int mode, SMT; one bounded lemma","ref":"I.3 / 3 C08"},
 "C12":{"text":"Proof of the global-heap collection builder invariant (used+free == size, 8-alignment, indices 1..n distinct), of addObject / createNewHeap (free space >= requested for every admissible request) / WriteToGlobalHeap (returned reference designates the stored bytes, error leaves the writer unchanged), of the collection header and first-object encoding, and of the heap-reference encode/parse lemma.",
        "note":TRUST+"Element-wise read-back through the dataset API, offsets of objects beyond the first (needs a sum over heap memory) and vlen datatype recognition are not decided; 2 obligations are known findings (free-space object size), 9 are unclaimed tool limits.",
        "technique":"contract-based deductive verification: builder invariant, pre/postconditions, frames, one lemma; int mode, SMT","ref":"I.3 / 3 C12"},
 "C15":{"text":"Proof, on the real direct-root WritableFractalHeap, of the representation invariant, exact error conditions, 'an error changes nothing', byte-wise postconditions of insert / get / overwrite / delete with frames (other objects' bytes untouched, counters updated), and lemmas insert-then-get, insert-keeps-others (new range disjoint from earlier ids), overwrite-then-get, delete-keeps-others.",
        "note":TRUST+"Write-out/load-back, indirect-root heaps and liveness of ids (needs ghost state) are not decided. 6 obligations are known findings (capacity ignores prefix/checksum, 2-byte offsets vs large blocks, delete of non-live ids, transition on non-fitting insert). Inserts require the data slice not to alias the heap's own spare capacity (documented precondition).",
        "technique":"contract-based deductive verification: class invariant + pre/postconditions + assigns + lemma blocks, int mode with discharged no-overflow obligations, SMT","ref":"I.3 / 3 C15"},
 "C17":{"text":"Fail-stop proof for the ~170 reader functions: one ghost flag per call site that can fail (non-nil error, or short ReadAt); at every return of a function with an error result a raised flag obliges a non-nil error, and no raised flag may be carried around a loop back edge. Because each site is verified against the I/O contract in isolation, one obligation covers the failure of the k-th read for every k and every truncation length.",
        "note":TRUST+"Decides 'a failure is never swallowed' (sufficient, not necessary: 11 sites triaged by hand as harmless are listed as unclaimed). 22 obligations are known findings, each demonstrated on the real code with a truncated/corrupted file. Not decided: use of buffer bytes beyond the count actually read, write-side I/O, equality with the intact-file answer.",
        "technique":"contract-based deductive verification: ghost-state fail-stop obligations over go/ssa against the io.ReaderAt contract, SMT","ref":"I.1 / 3 C17"},
 "C19":{"text":"Selector: proof that SelectConfig returns a mode permitted by the allowed-modes list or the 'none' fallback, returns 'none' whenever confidence is below the configured minimum, reports confidence in [0,1] (interface contract proved for RuleBasedStrategy), preserves its state invariant, and changes mode only as the fallback of a failed gate or as a freshly committed decision; Validate is sound and complete; ratios in [0,1]. Configuration independence: the B-tree rebalancing entry points are proved to write only rebalancing state (assigns clauses) and the three delete variants have the same postcondition on records and header.",
        "note":TRUST+"The time-based half of the stability rule is not expressible (time.Time values are unconstrained); content identity across whole histories is argued from the frames, not proved end to end; incremental/smart background rebalancing is not covered.",
        "technique":"contract-based deductive verification: pre/postconditions incl. floating point (SMT FP theory), interface-method contract, frame (assigns) obligations","ref":"I.3 / 3 C19"},
 "C07":{"text":"Proof, per function, of the absence of run-time panics of the kinds index/slice out of range, division by zero, negative or oversized make, failing type assertion, nil-map write and explicit panic, for the ~170 functions reachable from the read API (computed from the SSA call graph on each run). Inputs are unconstrained (arbitrary bytes, arbitrary ReadAt results); loops are cut with automatically inferred, solver-checked invariants. A change that removes or weakens a bounds check turns a discharged obligation into a failing one.",
        "note":TRUST+"Decided only for the obligations that discharge on the unchanged tree (about three quarters of those generated); the remainder are listed as unclaimed and a defect there is not detected. Termination, stack depth and memory proportional to file size are not decided by this check.",
        "technique":"contract-based deductive verification: weakest-precondition obligations over go/ssa (bit-vector semantics), Houdini loop invariants, SMT portfolio","ref":"3 C07"},
 "C09":{"text":"Proof that hyperslab validation is sound and complete: the shared validators and validateHyperslabSelection/Bounds/DimensionBounds accept a selection iff ranks agree and every dimension satisfies count,stride,block>0 and start+(count-1)*stride+block<=dim computed WITHOUT wrap-around; ReadSlice bounds; closed-form row-major linear offset (rank<=3) and output size; contiguity test implies a single gap-free run; first/last overlapping chunk per dimension; chunk-iterator piece geometry start=c*chunk, count=min(chunk,dims-start).",
        "note":TRUST+"Element-wise agreement of the recursive extractors with the full read and exactly-once chunk visiting are not decided (a seeded change in extractChunkPortionRecursive is not caught). mulOverflows is specified by the division characterisation (equivalence with the double-width product solver-checked at 8/16 bits only).",
        "technique":"contract-based deductive verification: pre/postconditions and quantified loop invariant on the real functions, SMT","ref":"3 C09"},
 "C14":{"text":"Proof that insert, lookup and delete on the real WritableBTreeV2 preserve the representation invariant (records sorted by hash, leaf image aliases the record slice, header counts equal the number of records, capacity bound) and implement the map-like postconditions (capacity refusal leaves the index unchanged; inserted record present; deleted record removed, others shifted), for all inputs and all histories (invariant induction).",
        "note":TRUST+"Lookup is specified by name hash (the index stores hashes only): 'distinct names with equal hashes are not confused' is not provable of this design and is not claimed; equality of jenkinsHash with lookup3 and the write/load round trip are not yet decided. jenkinsHash is abstracted as an uninterpreted function after a syntactic purity check.",
        "technique":"contract-based deductive verification: class invariant + pre/postconditions in mathematical-integer mode with discharged no-overflow obligations, SMT","ref":"3 C14"},
 "C20":{"text":"Proof over the real conversion functions (loop-free, inlined from go/ssa, full-domain symbolic inputs, SMT floating-point theory): bfloat16 code round trip, round-to-nearest-even for every float32, monotonicity, NaN discipline, byte encoding round trip; FP8 E4M3/E5M2 code->float32->code round trip for each of the 256 codes.",
        "note":TRUST+"math.Float32bits/frombits are bit casts (NaN payload tracked), math.Pow(2,k) and floor(math.Log2(x)) are trusted contracts. FP8 float32->code nearest/ties/monotone for all float32 inputs is not decided (not claimed). 20 NaN-code obligations are known findings.",
        "technique":"contract-based deductive verification: lemma obligations over inlined real code in the SMT FloatingPoint theory, case split per code","ref":"3 C20"},
}
na={
 "C01":"not built yet: needs element encoder/decoder, chunk geometry and layout contracts (planned)",
 "C02":"not built yet: attribute map view over compact/dense storage needs heap/index interface contracts (planned)",
 "C04":"not built yet: allocator invariant and extent obligations (planned)",
 "C05":"not built yet: per-structure encoding/size/checksum postconditions (planned)",
 "C06":"the deciding oracle is the reference library's h5dump output for a corpus of files; no contract over the library's functions can state it (differential corpus comparison is a different family)",
 "C10":"not built yet: allocator seeding and no-op session frame (planned)",
 "C11":"not built yet as a registered check: round-trip lemmas exist for link-info only so far",
 "C13":"not built yet: Resize validation contract (planned)",
 "C16":"not built yet: error-atomicity postconditions exist for B-tree v2 only (planned)",
 "C18":"schedule and liveness statements (all interleavings, stop returns, no goroutine outlives Close) have no contract-level formulation; the data-race half needs guarded_by obligations that are not built yet",
}
checks=[]
for pid in ids:
    if pid in claimed:
        c=claimed[pid]
        checks.append({"property_id":pid,
          "quick_cmd":"bin/govc check --property %s --tier quick"%pid,
          "thorough_cmd":"bin/govc check --property %s --tier thorough"%pid,
          "evidence_file":"/verif/evidence/%s.json"%pid,
          "replay_cmd_template":"cat {path}",
          "engine":"govc",
          "level_claimed":{"category":"proof","text":c["text"],"design_ref":"DESIGN.md §"+c["ref"]},
          "level_note":c["note"],"technique":c["technique"]})
commits=subprocess.run("git -C /repo log --format=%H --grep='^verif hooks'",shell=True,capture_output=True,text=True).stdout.split()
m={"version":1,"setup_cmd":SETUP,
 "hooks":{"guard":"verif","enable":"go build -tags verif — the only hook files are comment-only zz_contracts_verif.go files (//@ contract blocks) read by govc; they contain no executable code",
          "baseline_off_cmd":"cd /repo && PATH=/opt/veriftools/go1.26.8/bin:$PATH go test -vet=off -count=1 -timeout 25m ./...","source_commits":commits,"add_only":True},
 "engines":[{"name":"govc","path":"/verif/govc","serves_properties":sorted(claimed),"kind_free_text":"self-written verification-condition generator for Go: go/packages+go/ssa -> SMT-LIB (bit-vector or mathematical-integer mode), //@ contracts in tag-guarded comment files, obligations discharged by z3-new/z3/cvc5; models replayed with go test -overlay"}],
 "checks":checks,
 "not_applicable":[{"property_id":p,"reason":na[p]} for p in ids if p not in claimed],
 "notes":"Checks exit 1 with VIOLATION lines only for obligations that are neither discharged, nor listed in known_findings.json (printed as KNOWN-FINDING), nor listed in unclaimed.json (tool limits, reported in the evidence as not proved)."}
json.dump(m,open('/verif/MANIFEST.json','w'),indent=1)
print("claimed:",sorted(claimed))
