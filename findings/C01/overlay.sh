#!/bin/bash
# runs the demonstration against /repo without writing into it
d=$(mktemp -d); trap "rm -rf $d" EXIT
echo "{\"Replace\":{\"/repo/internal/writer/zz_chunks_replay_test.go\":\"/verif/findings/C01/zz_chunks_replay_test.go\"}}" > $d/ov.json
cd /repo/internal/writer && go test -overlay $d/ov.json -vet=off -count=1 -run 'TestReplay' -v . 2>&1 | tail -12
