package main

import (
	"fmt"
	"go/token"
	"go/types"
	"math"
	"strings"

	"golang.org/x/tools/go/ssa"
)

type intrinsicFn func(fr *frame, c *ssa.CallCommon, args []*Val, rt types.Type, pos token.Pos) *Val

var intrinsics map[string]intrinsicFn
var intrinsicMods map[string]func(c *ssa.CallCommon, ms *modSet)

func noMods(c *ssa.CallCommon, ms *modSet) {}

func byteSliceArgMods(argIdx int) func(c *ssa.CallCommon, ms *modSet) {
	return func(c *ssa.CallCommon, ms *modSet) {
		ms.comps["E:uint8"] = true
		if argIdx < len(c.Args) {
			for _, k := range sliceArgComps(c.Args[argIdx]) {
				ms.comps[k] = true
			}
		}
	}
}

const u8comp = "E:uint8"

func fileCompSort() string { return SArr(SInt, SArr(SIdx, SBV(8))) }

func u8compSortF() string { return SArr(SInt, SArr(SIdx, SBV(8))) }

func (fr *frame) byteAt(s *Val, i Term) Term {
	ft := fr.ft
	bk := s.backing()
	i = ft.c.Define("bi", i)
	ft.c.AddInst(i)
	lv := bk.extend(Step{Idx: &i}, types.Typ[types.Uint8])
	return ft.load(fr.cur.mem, lv).L[0]
}

func (fr *frame) readInt(s *Val, nbytes int, little bool) Term {
	var bs []Term
	for j := 0; j < nbytes; j++ {
		bs = append(bs, fr.byteAt(s, app(SIdx, "bvadd", s.sOff(), idxInt(int64(j)))))
	}
	// concat: most significant first
	var parts []Term
	if little {
		for j := nbytes - 1; j >= 0; j-- {
			parts = append(parts, bs[j])
		}
	} else {
		parts = bs
	}
	if nbytes == 1 {
		return parts[0]
	}
	if gInt {
		// most significant first: value = sum parts[j] * 256^(n-1-j)
		var terms []string
		for j, p := range parts {
			terms = append(terms, fmt.Sprintf("(* %s %s)", pow2(8*(nbytes-1-j)).String(), p.T))
		}
		return Term{SInt, "(+ " + strings.Join(terms, " ") + ")"}
	}
	return app(SBV(8*nbytes), "concat", parts...)
}

// byteOf returns byte k (0 = least significant) of an integer value of the given width.
func byteOf(v Term, k int) Term {
	if gInt {
		if k == 0 {
			return Term{SInt, fmt.Sprintf("(mod %s 256)", v.T)}
		}
		return Term{SInt, fmt.Sprintf("(mod (div %s %s) 256)", v.T, pow2(8*k).String())}
	}
	return Term{SBV(8), fmt.Sprintf("((_ extract %d %d) %s)", 8*k+7, 8*k, v.T)}
}

func (fr *frame) writeInt(s *Val, v Term, nbytes int, little bool) {
	ft := fr.ft
	bk := s.backing()
	{
		lv0 := bk.extend(Step{Idx: &Term{SIdx, "(_ bv0 64)"}}, types.Typ[types.Uint8])
		lo := s.sOff()
		hi := app(SIdx, "bvadd", lo, idxInt(int64(nbytes)))
		if len(bk.Steps) == 0 {
			fr.frameCheckRange(compsOf(lv0), bk.Ref, &lo, &hi, "PutUint", token.NoPos)
		} else {
			fr.frameCheck(compsOf(lv0), bk.Ref, "PutUint", token.NoPos)
		}
	}
	// int mode: name the bytes and state the recomposition identity sum b_k*256^k == v mod 256^n (a theorem of
	// integer arithmetic that the solvers do not find by themselves within the time limit)
	var named []Term
	if gInt && nbytes > 1 {
		var terms []string
		for k := 0; k < nbytes; k++ {
			bk := ft.c.Define("wb", byteOf(v, k))
			named = append(named, bk)
			terms = append(terms, fmt.Sprintf("(* %s %s)", pow2(8*k).String(), bk.T))
		}
		sum := Term{SInt, "(+ " + strings.Join(terms, " ") + ")"}
		ident := mkEq(sum, Term{SInt, fmt.Sprintf("(mod %s %s)", v.T, pow2(8*nbytes).String())})
		for _, bk := range named {
			ft.c.Assume(bk, ident)
		}
	}
	for j := 0; j < nbytes; j++ {
		var k int
		if little {
			k = j
		} else {
			k = nbytes - 1 - j
		}
		b := byteOf(v, k)
		if named != nil {
			b = named[k]
		}
		idx := ft.c.Define("wi", app(SIdx, "bvadd", s.sOff(), idxInt(int64(j))))
		ft.c.AddInst(idx)
		lv := bk.extend(Step{Idx: &idx}, types.Typ[types.Uint8])
		ft.store(fr.cur.mem, lv, &Val{T: types.Typ[types.Uint8], L: []Term{b}})
		for _, c := range compsOf(lv) {
			fr.checkLoopMod(c)
		}
	}
}

func leTag(e *Env) int64 { return int64(e.typeID("binary.littleEndian")) }
func beTag(e *Env) int64 { return int64(e.typeID("binary.bigEndian")) }

func errNonNil(fr *frame, hint string, rt types.Type) *Val {
	ft := fr.ft
	tag := intConst(int64(ft.e.typeID("*errors.errorString")))
	return &Val{T: rt, L: []Term{tag, ft.c.Fresh(hint, SInt)}}
}

func init() {
	intrinsics = map[string]intrinsicFn{}
	intrinsicMods = map[string]func(c *ssa.CallCommon, ms *modSet){}

	for _, nb := range []int{2, 4, 8} {
		nb := nb
		bits := nb * 8
		for _, little := range []bool{true, false} {
			little := little
			tn := "bigEndian"
			if little {
				tn = "littleEndian"
			}
			rd := fmt.Sprintf("(encoding/binary.%s).Uint%d", tn, bits)
			wr := fmt.Sprintf("(encoding/binary.%s).PutUint%d", tn, bits)
			intrinsics[rd] = func(fr *frame, c *ssa.CallCommon, args []*Val, rt types.Type, pos token.Pos) *Val {
				s := args[len(args)-1]
				fr.oblige("idx", fr.ft.e.srcText(pos, "call"), pos, app(SBool, "bvuge", s.sLen(), idxInt(int64(nb))))
				return &Val{T: rt, L: []Term{fr.readInt(s, nb, little)}}
			}
			intrinsicMods[rd] = noMods
			intrinsics[wr] = func(fr *frame, c *ssa.CallCommon, args []*Val, rt types.Type, pos token.Pos) *Val {
				s, v := args[len(args)-2], args[len(args)-1]
				fr.oblige("idx", fr.ft.e.srcText(pos, "call"), pos, app(SBool, "bvuge", s.sLen(), idxInt(int64(nb))))
				fr.writeInt(s, v.L[0], nb, little)
				return &Val{T: rt, Tup: []*Val{}}
			}
			intrinsicMods[wr] = byteSliceArgMods(1)
		}
		// interface dispatch: receiver tag decides
		rdI := fmt.Sprintf("(encoding/binary.ByteOrder).Uint%d", bits)
		wrI := fmt.Sprintf("(encoding/binary.ByteOrder).PutUint%d", bits)
		intrinsics[rdI] = func(fr *frame, c *ssa.CallCommon, args []*Val, rt types.Type, pos token.Pos) *Val {
			recv, s := args[0], args[1]
			e := fr.ft.e
			fr.assumeByteOrder(recv)
			fr.oblige("idx", e.srcText(pos, "call"), pos, app(SBool, "bvuge", s.sLen(), idxInt(int64(nb))))
			isLE := mkEq(recv.L[0], intConst(leTag(e)))
			return &Val{T: rt, L: []Term{mkIte(isLE, fr.readInt(s, nb, true), fr.readInt(s, nb, false))}}
		}
		intrinsicMods[rdI] = noMods
		intrinsics[wrI] = func(fr *frame, c *ssa.CallCommon, args []*Val, rt types.Type, pos token.Pos) *Val {
			recv, s, v := args[0], args[1], args[2]
			e := fr.ft.e
			fr.assumeByteOrder(recv)
			fr.oblige("idx", e.srcText(pos, "call"), pos, app(SBool, "bvuge", s.sLen(), idxInt(int64(nb))))
			isLE := mkEq(recv.L[0], intConst(leTag(e)))
			// value written depends on byte order: write ite'd bytes
			le := v.L[0]
			// big-endian = byte-reversed little-endian
			var parts []Term
			for k := 0; k < nb; k++ {
				parts = append(parts, byteOf(le, k))
			}
			var rev Term
			if gInt {
				var terms []string
				for j, p := range parts {
					terms = append(terms, fmt.Sprintf("(* %s %s)", pow2(8*(nb-1-j)).String(), p.T))
				}
				rev = Term{SInt, "(+ " + strings.Join(terms, " ") + ")"}
			} else {
				rev = app(SBV(bits), "concat", parts...)
			}
			fr.writeInt(s, fr.ft.c.Define("bo", mkIte(isLE, le, rev)), nb, true)
			return &Val{T: rt, Tup: []*Val{}}
		}
		intrinsicMods[wrI] = byteSliceArgMods(0)
	}

	nonNilErr := func(fr *frame, c *ssa.CallCommon, args []*Val, rt types.Type, pos token.Pos) *Val {
		return errNonNil(fr, "err", rt)
	}
	intrinsics["errors.New"] = nonNilErr
	intrinsicMods["errors.New"] = noMods
	intrinsics["fmt.Errorf"] = nonNilErr
	intrinsicMods["fmt.Errorf"] = noMods
	freshRes := func(fr *frame, c *ssa.CallCommon, args []*Val, rt types.Type, pos token.Pos) *Val {
		return fr.freshTuple("r", rt)
	}
	for _, n := range []string{"fmt.Sprintf", "fmt.Sprint", "fmt.Sprintln", "fmt.Printf", "fmt.Println", "fmt.Print", "fmt.Fprintf",
		"errors.Is", "errors.As", "errors.Unwrap", "strings.HasPrefix", "strings.HasSuffix", "strings.Contains", "strings.Split",
		"strings.TrimRight", "strings.TrimSpace", "strings.Trim", "strings.Join", "strings.Index", "strings.IndexByte", "bytes.Equal", "bytes.IndexByte",
		"strings.TrimSuffix", "strings.TrimPrefix", "strings.ToLower", "strings.ToUpper", "strings.Repeat", "strings.LastIndex", "strings.TrimLeft",
		"(error).Error", "time.Now", "time.Since", "(time.Time).Sub", "(time.Time).IsZero", "(time.Time).UnixNano", "(time.Duration).Seconds",
		"hash/crc32.ChecksumIEEE", "math.Log2", "math.Pow", "math.Sqrt", "math.Log", "math.Exp", "math.Abs", "math.Max", "math.Min", "math.Ceil"} {
		if _, ok := intrinsics[n]; !ok {
			intrinsics[n] = freshRes
		}
		intrinsicMods[n] = noMods
	}

	// math bit casts and predicates
	intrinsics["math.Float32bits"] = func(fr *frame, c *ssa.CallCommon, args []*Val, rt types.Type, pos token.Pos) *Val {
		ft := fr.ft
		if args[0].Bits != nil && args[0].Bits.S == SBVraw(32) {
			return &Val{T: rt, L: []Term{*args[0].Bits}}
		}
		b := ft.c.Fresh("f32bits", SBVraw(32))
		ft.c.Assume(b, mkEq(Term{SF32, "((_ to_fp 8 24) " + b.T + ")"}, args[0].L[0]))
		return &Val{T: rt, L: []Term{b}}
	}
	intrinsics["math.Float64bits"] = func(fr *frame, c *ssa.CallCommon, args []*Val, rt types.Type, pos token.Pos) *Val {
		ft := fr.ft
		if args[0].Bits != nil && args[0].Bits.S == SBVraw(64) {
			return &Val{T: rt, L: []Term{*args[0].Bits}}
		}
		b := ft.c.Fresh("f64bits", SBVraw(64))
		ft.c.Assume(b, mkEq(Term{SF64, "((_ to_fp 11 53) " + b.T + ")"}, args[0].L[0]))
		return &Val{T: rt, L: []Term{b}}
	}
	intrinsics["math.Float32frombits"] = func(fr *frame, c *ssa.CallCommon, args []*Val, rt types.Type, pos token.Pos) *Val {
		b := args[0].L[0]
		return &Val{T: rt, L: []Term{{SF32, "((_ to_fp 8 24) " + args[0].L[0].T + ")"}}, Bits: &b}
	}
	intrinsics["math.Float64frombits"] = func(fr *frame, c *ssa.CallCommon, args []*Val, rt types.Type, pos token.Pos) *Val {
		b := args[0].L[0]
		return &Val{T: rt, L: []Term{{SF64, "((_ to_fp 11 53) " + args[0].L[0].T + ")"}}, Bits: &b}
	}
	intrinsics["math.IsNaN"] = func(fr *frame, c *ssa.CallCommon, args []*Val, rt types.Type, pos token.Pos) *Val {
		return &Val{T: rt, L: []Term{app(SBool, "fp.isNaN", args[0].L[0])}}
	}
	intrinsics["math.IsInf"] = func(fr *frame, c *ssa.CallCommon, args []*Val, rt types.Type, pos token.Pos) *Val {
		f, s := args[0].L[0], args[1].L[0]
		inf := app(SBool, "fp.isInfinite", f)
		posi := app(SBool, "fp.isPositive", f)
		sgt := app(SBool, "bvsgt", s, bvInt(64, 0))
		slt := app(SBool, "bvslt", s, bvInt(64, 0))
		return &Val{T: rt, L: []Term{mkAnd(inf, mkOr(mkAnd(sgt, posi), mkAnd(slt, mkNot(posi)), mkAnd(mkNot(sgt), mkNot(slt))))}}
	}
	intrinsics["math.Signbit"] = func(fr *frame, c *ssa.CallCommon, args []*Val, rt types.Type, pos token.Pos) *Val {
		// NaN sign is not representable in the FP theory: unknown for NaN
		ft := fr.ft
		f := args[0].L[0]
		nanSign := ft.c.Fresh("nansign", SBool)
		return &Val{T: rt, L: []Term{mkIte(app(SBool, "fp.isNaN", f), nanSign, app(SBool, "fp.isNegative", f))}}
	}
	intrinsics["math.Copysign"] = func(fr *frame, c *ssa.CallCommon, args []*Val, rt types.Type, pos token.Pos) *Val {
		ft := fr.ft
		x, y := args[0].L[0], args[1].L[0]
		nanSign := ft.c.Fresh("nansign", SBool)
		neg := mkIte(app(SBool, "fp.isNaN", y), nanSign, app(SBool, "fp.isNegative", y))
		ax := Term{SF64, "(fp.abs " + x.T + ")"}
		return &Val{T: rt, L: []Term{mkIte(neg, Term{SF64, "(fp.neg " + ax.T + ")"}, ax)}}
	}
	intrinsicMods["math.Copysign"] = noMods
	intrinsics["math.Inf"] = func(fr *frame, c *ssa.CallCommon, args []*Val, rt types.Type, pos token.Pos) *Val {
		s := args[0].L[0]
		return &Val{T: rt, L: []Term{mkIte(app(SBool, "bvsge", s, bvInt(64, 0)), Term{SF64, "(_ +oo 11 53)"}, Term{SF64, "(_ -oo 11 53)"})}}
	}
	intrinsics["math.NaN"] = func(fr *frame, c *ssa.CallCommon, args []*Val, rt types.Type, pos token.Pos) *Val {
		return &Val{T: rt, L: []Term{{SF64, "(_ NaN 11 53)"}}}
	}
	intrinsics["math.Floor"] = func(fr *frame, c *ssa.CallCommon, args []*Val, rt types.Type, pos token.Pos) *Val {
		return &Val{T: rt, L: []Term{{SF64, "(fp.roundToIntegral RTN " + args[0].L[0].T + ")"}}}
	}
	intrinsics["math.Ceil"] = func(fr *frame, c *ssa.CallCommon, args []*Val, rt types.Type, pos token.Pos) *Val {
		return &Val{T: rt, L: []Term{{SF64, "(fp.roundToIntegral RTP " + args[0].L[0].T + ")"}}}
	}
	intrinsics["math.Trunc"] = func(fr *frame, c *ssa.CallCommon, args []*Val, rt types.Type, pos token.Pos) *Val {
		return &Val{T: rt, L: []Term{{SF64, "(fp.roundToIntegral RTZ " + args[0].L[0].T + ")"}}}
	}
	intrinsics["math.Round"] = func(fr *frame, c *ssa.CallCommon, args []*Val, rt types.Type, pos token.Pos) *Val {
		return &Val{T: rt, L: []Term{{SF64, "(fp.roundToIntegral RNA " + args[0].L[0].T + ")"}}}
	}
	intrinsics["math.Abs"] = func(fr *frame, c *ssa.CallCommon, args []*Val, rt types.Type, pos token.Pos) *Val {
		return &Val{T: rt, L: []Term{{SF64, "(fp.abs " + args[0].L[0].T + ")"}}}
	}
	for _, n := range []string{"math.Float32bits", "math.Float64bits", "math.Float32frombits", "math.Float64frombits", "math.IsNaN", "math.IsInf",
		"math.Signbit", "math.Inf", "math.NaN", "math.Floor", "math.Trunc", "math.Round"} {
		intrinsicMods[n] = noMods
	}
	// trusted contract: math.Pow(2, k) for integral k in [-160,160] is exactly 2^k.
	intrinsics["math.Pow"] = func(fr *frame, c *ssa.CallCommon, args []*Val, rt types.Type, pos token.Pos) *Val {
		ft := fr.ft
		r := ft.c.Fresh("pow", SF64)
		two := fpLit(64, 2)
		var cases []Term
		for k := -160; k <= 160; k++ {
			cases = append(cases, mkAnd(mkEq(args[1].L[0], fpLit(64, float64(k))), mkEq(r, fpLit(64, math.Ldexp(1, k)))))
		}
		ft.c.Assume(r, mkImp(app(SBool, "fp.eq", args[0].L[0], two), mkOr(append(cases, mkNot(mkAnd(
			app(SBool, "fp.geq", args[1].L[0], fpLit(64, -160)), app(SBool, "fp.leq", args[1].L[0], fpLit(64, 160)),
			mkEq(args[1].L[0], Term{SF64, "(fp.roundToIntegral RTZ " + args[1].L[0].T + ")"}))))...)))
		ft.e.trust("math.Pow(2,k) = 2^k exactly for integral k in [-160,160]")
		return &Val{T: rt, L: []Term{r}}
	}
	// trusted contract: for finite x > 0 that is float32-representable, floor(math.Log2(x)) is the
	// binary exponent of x: 2^e <= x < 2^(e+1)  =>  e <= Log2(x) < e+1.
	intrinsics["math.Log2"] = func(fr *frame, c *ssa.CallCommon, args []*Val, rt types.Type, pos token.Pos) *Val {
		ft := fr.ft
		x := args[0].L[0]
		r := ft.c.Fresh("log2", SF64)
		var cases []Term
		for e := -149; e <= 127; e++ {
			lo, hi := fpLit(64, math.Ldexp(1, e)), fpLit(64, math.Ldexp(1, e+1))
			cases = append(cases, mkAnd(app(SBool, "fp.leq", lo, x), app(SBool, "fp.lt", x, hi),
				app(SBool, "fp.leq", fpLit(64, float64(e)), r), app(SBool, "fp.lt", r, fpLit(64, float64(e+1)))))
		}
		dom := mkAnd(app(SBool, "fp.leq", fpLit(64, math.Ldexp(1, -149)), x), app(SBool, "fp.lt", x, fpLit(64, math.Ldexp(1, 128))),
			mkEq(x, Term{SF64, "((_ to_fp 11 53) RNE ((_ to_fp 8 24) RNE " + x.T + "))"}))
		ft.c.Assume(r, mkImp(dom, mkOr(cases...)))
		ft.e.trust("floor(math.Log2(x)) = binary exponent of x for positive finite float32-representable x")
		return &Val{T: rt, L: []Term{r}}
	}

	// crc32 as an uninterpreted function of (bytes, off, len)
	intrinsics["hash/crc32.ChecksumIEEE"] = func(fr *frame, c *ssa.CallCommon, args []*Val, rt types.Type, pos token.Pos) *Val {
		ft := fr.ft
		ft.c.addPre("crc32", fmt.Sprintf("(declare-fun crc32 (%s %s %s) %s)", SArr(SIdx, SBV(8)), SIdx, SIdx, SBV(32)))
		s := args[0]
		if s.Rg != nil {
			return ft.freshVal("crc", rt)
		}
		arr := mkSelect(ft.memGet(fr.cur.mem, u8comp, u8compSortF()), s.sRef())
		return &Val{T: rt, L: []Term{app(SBV(32), "crc32", arr, s.sOff(), s.sLen())}}
	}

	// io.ReaderAt / io.WriterAt
	// ReadAt(p, off): n bytes of the abstract file FILE[reader] starting at off are copied to p[0:n); bytes of p from n on keep
	// their previous content; 0 <= n <= len(p); n < len(p) implies err != nil.
	readAt := func(fr *frame, c *ssa.CallCommon, args []*Val, rt types.Type, pos token.Pos) *Val {
		ft := fr.ft
		recv := args[0]
		p := args[1]
		n := ft.c.Fresh("n", SIdx)
		err := ft.freshVal("rerr", types.Universe.Lookup("error").Type())
		ft.c.Assume(n, uLe(n, p.sLen()))
		ft.c.Assume(n, mkImp(app(SBool, "bvslt", n, p.sLen()), mkNot(mkEq(err.L[0], intConst(0)))))
		if p.Rg != nil || len(args) < 3 {
			if p.Rg != nil {
				for _, k := range compsOf(p.Rg) {
					ft.havocComp(fr.cur.mem, k)
					fr.checkLoopMod(k)
				}
			} else {
				all := ft.memGet(fr.cur.mem, u8comp, u8compSortF())
				na := ft.c.Fresh("readbuf", SArr(SIdx, SBV(8)))
				fr.cur.mem.m[u8comp] = ft.c.Define("m$"+u8comp, mkStore(all, p.sRef(), na))
				fr.checkLoopMod(u8comp)
				fr.frameCheck([]string{u8comp}, p.sRef(), "Read", pos)
			}
		} else {
			off := args[2].L[0]
			fref := recv.L[0]
			if isInterface(recv.T) {
				fref = recv.L[1]
			}
			farr := mkSelect(ft.memGet(fr.cur.mem, "FILE", fileCompSort()), fref)
			all := ft.memGet(fr.cur.mem, u8comp, u8compSortF())
			old := mkSelect(all, p.sRef())
			na := ft.c.Fresh("readbuf", SArr(SIdx, SBV(8)))
			k := ft.c.BoundVar("k")
			kt := Term{SIdx, k}
			inr := mkAnd(app(SBool, "bvsle", p.sOff(), kt), app(SBool, "bvslt", kt, app(SIdx, "bvadd", p.sOff(), n)))
			ft.c.Assume(na, ft.c.Quant(false, k, SIdx, mkEq(mkSelect(na, kt),
				mkIte(inr, mkSelect(farr, app(SIdx, "bvadd", off, app(SIdx, "bvsub", kt, p.sOff()))), mkSelect(old, kt)))))
			fr.cur.mem.m[u8comp] = ft.c.Define("m$"+u8comp, mkStore(all, p.sRef(), na))
			fr.checkLoopMod(u8comp)
			lo := p.sOff()
			hi := app(SIdx, "bvadd", lo, p.sLen())
			fr.frameCheckRange([]string{u8comp}, p.sRef(), &lo, &hi, "ReadAt", pos)
		}
		return &Val{T: rt, Tup: []*Val{{T: types.Typ[types.Int], L: []Term{n}}, err}}
	}
	intrinsics["(io.ReaderAt).ReadAt"] = readAt
	intrinsicMods["(io.ReaderAt).ReadAt"] = byteSliceArgMods(0)
	intrinsics["(io.Reader).Read"] = func(fr *frame, c *ssa.CallCommon, args []*Val, rt types.Type, pos token.Pos) *Val {
		// n may be short without error
		ft := fr.ft
		p := args[1]
		if p.Rg != nil {
			for _, k := range compsOf(p.Rg) {
				ft.havocComp(fr.cur.mem, k)
				fr.checkLoopMod(k)
			}
		} else {
			all := ft.memGet(fr.cur.mem, u8comp, u8compSortF())
			na := ft.c.Fresh("readbuf", SArr(SIdx, SBV(8)))
			fr.cur.mem.m[u8comp] = ft.c.Define("m$"+u8comp, mkStore(all, p.sRef(), na))
			fr.checkLoopMod(u8comp)
		}
		n := ft.c.Fresh("n", SIdx)
		err := ft.freshVal("rerr", types.Universe.Lookup("error").Type())
		ft.c.Assume(n, uLe(n, p.sLen()))
		return &Val{T: rt, Tup: []*Val{{T: types.Typ[types.Int], L: []Term{n}}, err}}
	}
	intrinsicMods["(io.Reader).Read"] = byteSliceArgMods(0)
	writeAt := func(fr *frame, c *ssa.CallCommon, args []*Val, rt types.Type, pos token.Pos) *Val {
		ft := fr.ft
		p := args[1]
		n := ft.c.Fresh("n", SIdx)
		err := ft.freshVal("werr", types.Universe.Lookup("error").Type())
		ft.c.Assume(n, uLe(n, p.sLen()))
		ft.c.Assume(n, mkImp(app(SBool, "bvult", n, p.sLen()), mkNot(mkEq(err.L[0], intConst(0)))))
		return &Val{T: rt, Tup: []*Val{{T: types.Typ[types.Int], L: []Term{n}}, err}}
	}
	intrinsics["(io.WriterAt).WriteAt"] = writeAt
	intrinsicMods["(io.WriterAt).WriteAt"] = noMods
	intrinsics["(io.Writer).Write"] = writeAt
	intrinsicMods["(io.Writer).Write"] = noMods
	// os.File.Stat / FileInfo.Size: the size reported for a file handle is a fixed (uninterpreted) function of the
	// handle, non-negative; Stat returns a non-nil FileInfo when it returns no error.
	intrinsics["(*os.File).Stat"] = func(fr *frame, c *ssa.CallCommon, args []*Val, rt types.Type, pos token.Pos) *Val {
		ft := fr.ft
		ft.c.addPre("statinfo", "(declare-fun statinfo (Int) Int)\n(declare-fun infosize (Int) "+SBV(64)+")")
		err := ft.freshVal("staterr", types.Universe.Lookup("error").Type())
		tt := rt.(*types.Tuple)
		fi := ft.freshVal("fileinfo", tt.At(0).Type())
		pl := rawApp(SInt, "statinfo", args[0].L[0])
		ft.c.Assume(fi.L[0], mkImp(mkEq(err.L[0], intConst(0)), mkNot(mkEq(fi.L[0], intConst(0)))))
		ft.c.Assume(fi.L[1], mkEq(fi.L[1], pl))
		return &Val{T: rt, Tup: []*Val{fi, err}}
	}
	intrinsicMods["(*os.File).Stat"] = noMods
	intrinsics["(io/fs.FileInfo).Size"] = func(fr *frame, c *ssa.CallCommon, args []*Val, rt types.Type, pos token.Pos) *Val {
		ft := fr.ft
		ft.c.addPre("statinfo", "(declare-fun statinfo (Int) Int)\n(declare-fun infosize (Int) "+SBV(64)+")")
		sz := ft.c.Fresh("fsize", SBV(64))
		ft.c.Assume(sz, mkEq(sz, rawApp(SBV(64), "infosize", args[0].L[1])))
		ft.c.Assume(sz, mkAnd(app(SBool, "bvsge", sz, bvInt(64, 0)), app(SBool, "bvsle", sz, bvInt(64, 1<<62))))
		return &Val{T: rt, L: []Term{sz}}
	}
	intrinsicMods["(io/fs.FileInfo).Size"] = noMods
	intrinsics["io.ReadFull"] = func(fr *frame, c *ssa.CallCommon, args []*Val, rt types.Type, pos token.Pos) *Val {
		return readAt(fr, c, args, rt, pos)
	}
	intrinsicMods["io.ReadFull"] = byteSliceArgMods(1)
}

func (fr *frame) assumeByteOrder(recv *Val) {
	e := fr.ft.e
	e.trust("every binary.ByteOrder value is binary.LittleEndian or binary.BigEndian")
	fr.assume(mkOr(mkEq(recv.L[0], intConst(leTag(e))), mkEq(recv.L[0], intConst(beTag(e)))))
}
