package structures

import (
	"bytes"
	"encoding/binary"
	"testing"

	"github.com/scigolib/hdf5/internal/core"
)

func triageSB() *core.Superblock {
	return &core.Superblock{Version: 2, OffsetSize: 8, LengthSize: 8, Endianness: binary.LittleEndian}
}

// Link message whose 8-byte name length is 0xFFFFFFFFFFFFFFFF: int(nameLen) == -1, the bounds check
// `current+int(nameLen) > len(data)` passes and data[current:current-1] panics.
func TestTriage_ParseLinkMessage_1(t *testing.T) {
	data := []byte{1, 0x03, 0xFF, 0xFF, 0xFF, 0xFF, 0xFF, 0xFF, 0xFF, 0xFF, 'a', 'b'}
	defer func() {
		if r := recover(); r != nil {
			t.Logf("REPRODUCED: structures.ParseLinkMessage panics on name length 2^64-1: %v", r)
			return
		}
		t.Fatalf("no panic")
	}()
	_, err := ParseLinkMessage(data, triageSB())
	t.Logf("returned err=%v", err)
}

// Local heap header whose data segment size field is 2^63: make([]byte, dataSegmentSize) panics
// (and any smaller huge value allocates that much memory before a single byte is read).
func TestTriage_LoadLocalHeap_1(t *testing.T) {
	file := make([]byte, 64)
	copy(file, "HEAP")
	binary.LittleEndian.PutUint64(file[8:], 1<<63)  // data segment size
	binary.LittleEndian.PutUint64(file[24:], 32)    // data segment address
	defer func() {
		if r := recover(); r != nil {
			t.Logf("REPRODUCED: structures.LoadLocalHeap panics on data segment size 2^63: %v", r)
			return
		}
		t.Fatalf("no panic")
	}()
	_, err := LoadLocalHeap(bytes.NewReader(file), 0, triageSB())
	t.Logf("returned err=%v", err)
}
