package main

// Automatic loop invariants: candidate templates over loop-header phis, pruned by
// Houdini iteration (every surviving candidate is proved inductive, so using it is sound).

import (
	"fmt"
	"go/token"
	"go/types"

	"golang.org/x/tools/go/ssa"
)

type bexpr struct {
	v     ssa.Value // loop-invariant value, or
	lenOf ssa.Value // len(lenOf)
	conv  *bexpr    // integer conversion of another bexpr
	toT   types.Type
	k     *int64 // constant
}

func (b *bexpr) key() string {
	switch {
	case b.k != nil:
		return fmt.Sprintf("%d", *b.k)
	case b.v != nil:
		return b.v.Name()
	case b.lenOf != nil:
		return "len(" + b.lenOf.Name() + ")"
	case b.conv != nil:
		return "conv(" + b.conv.key() + ")"
	}
	return "?"
}

type autoInv struct {
	id    string
	phi   *ssa.Phi
	op    string // bvsge bvsle bvslt bvuge bvule bvult
	bound *bexpr
	dead  bool
}

func (fr *frame) evalBexpr(b *bexpr, w int) (Term, bool) {
	switch {
	case b.k != nil:
		return bvInt(w, *b.k), true
	case b.v != nil:
		bw, _, ok := isIntType(b.v.Type())
		if !ok || bw != w {
			return Term{}, false
		}
		return fr.val(b.v).L[0], true
	case b.lenOf != nil:
		if w != 64 {
			return Term{}, false
		}
		x := fr.val(b.lenOf)
		switch {
		case isSlice(b.lenOf.Type()):
			return x.sLen(), true
		case isString(b.lenOf.Type()):
			return x.strLen(), true
		}
		return Term{}, false
	case b.conv != nil:
		tw, _, ok := isIntType(b.toT)
		if !ok || tw != w {
			return Term{}, false
		}
		var fw int
		var fs bool
		switch {
		case b.conv.v != nil:
			fw, fs, ok = isIntType(b.conv.v.Type())
		case b.conv.lenOf != nil:
			fw, fs, ok = 64, true, true
		default:
			ok = false
		}
		if !ok {
			return Term{}, false
		}
		inner, ok2 := fr.evalBexpr(b.conv, fw)
		if !ok2 {
			return Term{}, false
		}
		return extendTo(inner, fw, fs, tw), true
	}
	return Term{}, false
}

func (fr *frame) autoTerm(a *autoInv, over map[*ssa.Phi]*Val) (Term, bool) {
	w, _, ok := isIntType(a.phi.Type())
	if !ok {
		return Term{}, false
	}
	var x Term
	if over != nil {
		if v, ok := over[a.phi]; ok {
			x = v.L[0]
		}
	}
	if x.T == "" {
		x = fr.val(a.phi).L[0]
	}
	b, ok := fr.evalBexpr(a.bound, w)
	if !ok {
		return Term{}, false
	}
	return app(SBool, a.op, x, b), true
}

// invariantExpr: is v (used inside loop li) expressible as a loop-invariant bound?
func invariantExpr(li *loopInfo, v ssa.Value, depth int) *bexpr {
	switch x := v.(type) {
	case *ssa.Const:
		if _, _, ok := isIntType(x.Type()); ok && x.Value != nil {
			k := x.Int64()
			return &bexpr{k: &k}
		}
		return nil
	case *ssa.Parameter, *ssa.FreeVar:
		return &bexpr{v: v}
	}
	in, ok := v.(ssa.Instruction)
	if !ok {
		return nil
	}
	if !li.body[in.Block()] {
		return &bexpr{v: v}
	}
	if depth > 2 {
		return nil
	}
	switch x := v.(type) {
	case *ssa.Call:
		if b, ok := x.Call.Value.(*ssa.Builtin); ok && b.Name() == "len" && len(x.Call.Args) == 1 {
			if inner := invariantExpr(li, x.Call.Args[0], depth+1); inner != nil && inner.v != nil {
				return &bexpr{lenOf: inner.v}
			}
		}
	case *ssa.Convert:
		if inner := invariantExpr(li, x.X, depth+1); inner != nil && (inner.v != nil || inner.lenOf != nil) {
			if _, _, ok := isIntType(x.Type()); ok {
				if _, _, ok2 := isIntType(x.X.Type()); ok2 {
					return &bexpr{conv: inner, toT: x.Type()}
				}
			}
		}
	}
	return nil
}

func (fr *frame) genCandidates() map[*ssa.BasicBlock][]*autoInv {
	out := map[*ssa.BasicBlock][]*autoInv{}
	for h, li := range fr.loops {
		var phis []*ssa.Phi
		for _, in := range h.Instrs {
			if p, ok := in.(*ssa.Phi); ok {
				if _, _, isInt := isIntType(p.Type()); isInt {
					phis = append(phis, p)
				}
			} else {
				break
			}
		}
		if len(phis) == 0 {
			continue
		}
		bounds := map[string]*bexpr{}
		add := func(b *bexpr) {
			if b != nil {
				bounds[b.key()] = b
			}
		}
		for b := range li.body {
			for _, in := range b.Instrs {
				switch x := in.(type) {
				case *ssa.BinOp:
					switch x.Op {
					case token.LSS, token.LEQ, token.GTR, token.GEQ, token.EQL, token.NEQ:
						add(invariantExpr(li, x.X, 0))
						add(invariantExpr(li, x.Y, 0))
					}
				case *ssa.IndexAddr:
					if isSlice(x.X.Type()) {
						if inner := invariantExpr(li, x.X, 0); inner != nil && inner.v != nil {
							add(&bexpr{lenOf: inner.v})
						}
					}
				case *ssa.Slice:
					if isSlice(x.X.Type()) || isString(x.X.Type()) {
						if inner := invariantExpr(li, x.X, 0); inner != nil && inner.v != nil {
							add(&bexpr{lenOf: inner.v})
						}
					}
				}
			}
		}
		for _, p := range fr.fn.Params {
			if isSlice(p.Type()) || isString(p.Type()) {
				add(&bexpr{lenOf: p})
			}
		}
		zero, minus1 := int64(0), int64(-1)
		for _, ph := range phis {
			_, signed, _ := isIntType(ph.Type())
			mk := func(op string, b *bexpr) {
				out[h] = append(out[h], &autoInv{id: fmt.Sprintf("loop %d: %s %s %s", li.ordinal, ph.Comment, op, b.key()), phi: ph, op: op, bound: b})
			}
			// initial values
			for i, pred := range h.Preds {
				if isBackEdge(pred, h) {
					continue
				}
				if b := invariantExpr(li, ph.Edges[i], 0); b != nil {
					if signed {
						mk("bvsge", b)
						mk("bvsle", b)
					} else {
						mk("bvuge", b)
						mk("bvule", b)
					}
				}
			}
			if signed {
				mk("bvsge", &bexpr{k: &zero})
				mk("bvsge", &bexpr{k: &minus1})
			}
			for _, b := range bounds {
				if b.k != nil {
					continue
				}
				if signed {
					mk("bvsle", b)
					mk("bvslt", b)
				} else {
					mk("bvule", b)
					mk("bvult", b)
				}
			}
		}
		if len(out[h]) > 60 {
			out[h] = out[h][:60]
		}
	}
	return out
}

// houdini: iterate translation + solving of the auto-inv obligations until all surviving candidates are inductive.
func (e *Env) verifyFuncAuto(fn *ssa.Function, extraKinds []string, cfg solveCfg) *FuncResult {
	// first pass to find loops and candidates
	probe := &frame{fn: fn}
	probe.findLoops()
	if len(probe.loops) == 0 {
		return e.verifyFuncWith(fn, extraKinds, nil)
	}
	cands := probe.genCandidates()
	// drop duplicates by id
	for h, cs := range cands {
		seen := map[string]bool{}
		var out []*autoInv
		for _, c := range cs {
			if !seen[c.id] {
				seen[c.id] = true
				out = append(out, c)
			}
		}
		cands[h] = out
	}
	var res *FuncResult
	for round := 0; round < 12; round++ {
		res = e.verifyFuncWith(fn, extraKinds, cands)
		if res.Fatal != "" {
			return res
		}
		var autos []*Oblig
		for _, ob := range res.Obs {
			if ob.Kind == "auto-init" || ob.Kind == "auto-pres" {
				autos = append(autos, ob)
			}
		}
		if len(autos) == 0 {
			break
		}
		solveObs(res, autos, solveCfg{quickS: 2, fullS: 2, workers: 4}, true)
		failed := map[string]bool{}
		for _, ob := range autos {
			if ob.Status != "discharged" {
				failed[ob.Text] = true
			}
		}
		if len(failed) == 0 {
			break
		}
		for _, cs := range cands {
			for _, c := range cs {
				if failed[c.id] {
					c.dead = true
				}
			}
		}
	}
	// drop the auto obligations from the report (they are discharged by construction) but count them
	var keep []*Oblig
	for _, ob := range res.Obs {
		if ob.Kind == "auto-init" || ob.Kind == "auto-pres" {
			if ob.Status == "discharged" {
				res.AutoInv++
			}
			continue
		}
		keep = append(keep, ob)
	}
	res.Obs = keep
	for _, cs := range cands {
		for _, c := range cs {
			if !c.dead {
				res.AutoInvs = append(res.AutoInvs, c.id)
			}
		}
	}
	return res
}
