package hdf5

import "testing"

// 4x4 dataset of bytes v(r,c)=r*4+c, 2x2 chunks, whole-dataset selection: the chunk extractor must put element (r,c)
// at row-major position r*4+c of the output.
func TestFindingC09_ChunkOrder(t *testing.T) {
	dims := []uint64{4, 4}
	cd := []uint64{2, 2}
	sel := &HyperslabSelection{Start: []uint64{0, 0}, Count: []uint64{4, 4}, Stride: []uint64{1, 1}, Block: []uint64{1, 1}}
	out := make([]byte, 16)
	idx := uint64(0)
	for cr := uint64(0); cr < 2; cr++ {
		for cc := uint64(0); cc < 2; cc++ {
			chunk := make([]byte, 4)
			for r := uint64(0); r < 2; r++ {
				for c := uint64(0); c < 2; c++ {
					chunk[r*2+c] = byte((cr*2+r)*4 + cc*2 + c)
				}
			}
			extractChunkPortion(chunk, []uint64{cr, cc}, cd, dims, sel, 1, out, &idx)
		}
	}
	for k := range out {
		if out[k] != byte(k) {
			t.Fatalf("output %v: element %d is %d, want %d", out, k, out[k], k)
		}
	}
}

// 1-D dataset of 6 bytes v(x)=10+x, chunks of 2, selection start 0, count 3, stride 1, block 3 (accepted by the
// validators; blocks overlap): selected coordinates 0,1,2, 1,2,3, 2,3,4. Every selected element must reach the output.
func TestFindingC09_OverlappingBlocks(t *testing.T) {
	dims := []uint64{6}
	cd := []uint64{2}
	sel := &HyperslabSelection{Start: []uint64{0}, Count: []uint64{3}, Stride: []uint64{1}, Block: []uint64{3}}
	if err := validateHyperslabSelection(sel, dims); err != nil {
		t.Fatalf("selection rejected: %v", err)
	}
	out := make([]byte, 9)
	idx := uint64(0)
	for c := uint64(0); c < 3; c++ {
		chunk := []byte{byte(10 + 2*c), byte(11 + 2*c)}
		extractChunkPortion(chunk, []uint64{c}, cd, dims, sel, 1, out, &idx)
	}
	want := []byte{10, 11, 12, 11, 12, 13, 12, 13, 14}
	for k := range out {
		if out[k] != want[k] {
			t.Fatalf("output %v, want %v", out, want)
		}
	}
}
