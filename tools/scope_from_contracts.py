#!/usr/bin/env python3
"""prints the functions / lemmas declared in a contract file as JSON lists (helper for writing scopes)"""
import re,sys,json
fns=[];lems=[];pkg=None
for line in open(sys.argv[1]):
    m=re.match(r'package (\w+)',line)
    if m: pkg=m.group(1)
    m=re.match(r'//@ func (.*\S)\s*$',line)
    if m: fns.append(pkg+'.'+m.group(1))
    m=re.match(r'//@ lemma (\S+)',line)
    if m: lems.append(pkg+'.'+m.group(1))
print(json.dumps({"functions":fns,"lemmas":lems},indent=1))
