package core

// Demonstration for property C20 (float32 -> FP8 code direction): compares decode(encode(f)) of the real
// functions with an exact reference, the representable value nearest to f (ties to the even code, overflow to
// infinity from max+ulp/2 on, as IEEE round-to-nearest-even does), computed by brute force over the values that the
// library's own decoder produces for the 256 codes, in float64 arithmetic (exact for these operands).
//
// Run:  go test -vet=off -count=1 -run 'TestC20FP8Enc' ./internal/core/

import (
	"fmt"
	"math"
	"sort"
	"testing"
)

type c20fmt struct {
	name   string
	enc    func(float32) uint8
	dec    func(uint8) float32
	mbits  uint // mantissa bits of the format
	emin   int  // exponent of the smallest normal
	emax   int  // exponent of the largest finite value the decoder produces
	maxFin float64
}

func c20formats() []c20fmt {
	return []c20fmt{
		{"E4M3", func(f float32) uint8 { return uint8(Float32ToFP8E4M3(f)) }, func(c uint8) float32 { return FP8E4M3(c).ToFloat32() }, 3, -6, 7, 240},
		{"E5M2", func(f float32) uint8 { return uint8(Float32ToFP8E5M2(f)) }, func(c uint8) float32 { return FP8E5M2(c).ToFloat32() }, 2, -14, 15, 57344},
	}
}

// c20nearest returns the reference result for non-NaN f.
func c20nearest(ft c20fmt, f float32) float64 {
	x := float64(f)
	if math.IsInf(x, 0) || x == 0 {
		return x
	}
	a := math.Abs(x)
	if a >= math.Ldexp(1, ft.emax+1) {
		return math.Copysign(math.Inf(1), x)
	}
	// grid of non-negative representable values (with their code parity), plus the would-be next binade start standing for +Inf
	type gv struct {
		v    float64
		even bool
	}
	var grid []gv
	for c := 0; c < 128; c++ {
		v := float64(ft.dec(uint8(c)))
		if math.IsNaN(v) || math.IsInf(v, 0) {
			continue
		}
		grid = append(grid, gv{v, c&1 == 0})
	}
	grid = append(grid, gv{math.Ldexp(1, ft.emax+1), true}) // stands for infinity
	sort.Slice(grid, func(i, j int) bool { return grid[i].v < grid[j].v })
	best := grid[0]
	for _, g := range grid[1:] {
		d, bd := math.Abs(a-g.v), math.Abs(a-best.v)
		if d < bd || (d == bd && g.even && !best.even) {
			best = g
		}
	}
	r := best.v
	if r == math.Ldexp(1, ft.emax+1) {
		r = math.Inf(1)
	}
	if x < 0 {
		r = -r
	}
	return r
}

func c20same(a, b float64) bool {
	if math.IsNaN(a) || math.IsNaN(b) {
		return math.IsNaN(a) && math.IsNaN(b)
	}
	return a == b && math.Signbit(a) == math.Signbit(b)
}

// c20class names the region of f relative to the format: "tie" = exactly half way between two neighbouring values,
// "carry" = not a tie and the nearest value is a power of two above |f| (next binade, first normal, or infinity),
// "plain" otherwise.
func c20class(ft c20fmt, f float32) string {
	a := math.Abs(float64(f))
	ref := math.Abs(c20nearest(ft, f))
	other := 2*a - ref // the mirror image of ref; representable in the format iff f is a tie
	if other != ref && other >= 0 && float64(float32(other)) == other && (math.Abs(c20nearest(ft, float32(other))) == other || other == math.Ldexp(1, ft.emax+1)) {
		return "tie"
	}
	if ref > a {
		if m, _ := math.Frexp(ref); m == 0.5 || math.IsInf(ref, 0) {
			return "carry"
		}
	}
	return "plain"
}

// TestC20FP8EncSurvey prints, per format and float32 exponent, how many sampled inputs deviate from the reference, by class.
func TestC20FP8EncSurvey(t *testing.T) {
	lows := []uint32{0, 1, 0x3FFF, 0x4000, 0x4001, 0x7FFF}
	for _, ft := range c20formats() {
		for e := 0; e < 255; e++ {
			bad := map[string]int{}
			ex := map[string]float32{}
			n := 0
			for top := uint32(0); top < 256; top++ {
				for _, lo := range lows {
					for s := uint32(0); s < 2; s++ {
						bits := s<<31 | uint32(e)<<23 | top<<15 | lo
						f := math.Float32frombits(bits)
						got := float64(ft.dec(ft.enc(f)))
						want := c20nearest(ft, f)
						n++
						if !c20same(got, want) {
							k := c20class(ft, f)
							if math.IsNaN(got) {
								k = "toNaN"
							}
							bad[k]++
							if _, ok := ex[k]; !ok {
								ex[k] = f
							}
						}
					}
				}
			}
			if len(bad) > 0 {
				s := ""
				for _, k := range []string{"plain", "tie", "carry", "toNaN"} {
					if bad[k] > 0 {
						f := ex[k]
						s += fmt.Sprintf(" %s=%d (e.g. %g [0x%08x] -> %g, nearest %g)", k, bad[k], f, math.Float32bits(f), ft.dec(ft.enc(f)), c20nearest(ft, f))
					}
				}
				t.Logf("%s exp=%d (2^%d):%s", ft.name, e, e-127, s)
			}
		}
	}
}

// c20replay checks the inputs the verifier reported as counterexamples (models of the failed obligations) and one
// hand-picked input per defect class; each is a float32 whose decode(encode(f)) is not the nearest representable value.
func c20replay(t *testing.T, ft c20fmt, inputs []uint32) {
	for _, b := range inputs {
		f := math.Float32frombits(b)
		got, want := float64(ft.dec(ft.enc(f))), c20nearest(ft, f)
		if !c20same(got, want) {
			t.Errorf("%s: f=%g (0x%08x): decode(encode(f)) = %g, nearest representable (ties to even) = %g [%s]", ft.name, f, b, got, want, c20class(ft, f))
		}
	}
}

// TestC20FP8EncE5M2 fails on the unchanged tree: ties rounded away from zero, fraction overflow clamped, reserved codes.
func TestC20FP8EncE5M2(t *testing.T) {
	c20replay(t, c20formats()[1], []uint32{
		0x37000000,             // e=110: 2^-17 is a tie between 0 and 2^-16 -> must be 0, encoder gives 2^-16 (solver model)
		0x38200000, 0x38600001, // e=112: tie 2.5*2^-16 -> 3*2^-16 instead of 2*2^-16; 3.5..4 * 2^-16 clamped to 3*2^-16 instead of 2^-14
		0xb87e3040,             // e=112 (solver model, negative)
		0x38f15300, 0x38900000, // e=113 (solver model: 1.88*2^-14 -> 1.75*2^-14 instead of 2^-13); tie
		0x3f900000, 0x3ff00001, // e=127: 1.125 -> 1.25 instead of 1.0; 1.875.. -> 1.75 instead of 2
		0x3ff09358,             // e=127 (solver model)
		0x47700000,             // e=142: 61440 -> 57344 instead of +Inf (nearest-even overflow threshold)
		0x47800000, 0xc7800000, // e=143: +-65536 -> reserved code 0x7C/0xFC, decodes as NaN (number -> NaN)
	})
}

// TestC20FP8EncE4M3 fails on the unchanged tree.
func TestC20FP8EncE4M3(t *testing.T) {
	c20replay(t, c20formats()[0], []uint32{
		0x3a800103,             // e=117 (solver model): just above 2^-10 (half the smallest subnormal) -> 0 instead of 2^-9
		0x3ba00000 | 1<<31,     // e=119 (solver model m=0x200000, negative): tie 2.5*2^-9 -> 3*2^-9
		0x3c100000 | 1<<31,     // e=120 (solver model): tie
		0x3cfffe80,             // e=121 (solver model): 1.9999*2^-6 -> 1.875*2^-6 instead of 2^-5
		0x3f880000, 0x3ff80001, // e=127: 1.0625 -> 1.125 instead of 1.0; 1.9375.. -> 1.875 instead of 2
		0x43780000,             // e=134: 248 -> 240 instead of +Inf
		0x43800000, 0xc3800000, // e=135: +-256 -> reserved code, decodes as NaN (number -> NaN)
	})
}

// TestC20FP8EncAllBinades asserts agreement with the reference on the stratified sample of every binade (fails; the log
// of TestC20FP8EncSurvey lists the binades and classes).
func TestC20FP8EncAllBinades(t *testing.T) {
	lows := []uint32{0, 1, 0x3FFF, 0x4000, 0x4001, 0x7FFF}
	for _, ft := range c20formats() {
		for e := uint32(0); e < 255; e++ {
			n := 0
			for top := uint32(0); top < 256; top++ {
				for _, lo := range lows {
					for s := uint32(0); s < 2; s++ {
						f := math.Float32frombits(s<<31 | e<<23 | top<<15 | lo)
						if !c20same(float64(ft.dec(ft.enc(f))), c20nearest(ft, f)) {
							n++
						}
					}
				}
			}
			if n > 0 {
				t.Errorf("%s: binade e=%d (2^%d): %d of 3072 sampled inputs are not rounded to nearest-even", ft.name, e, int(e)-127, n)
			}
		}
	}
}
