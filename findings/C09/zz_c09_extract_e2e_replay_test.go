package hdf5

import (
	"os"
	"path/filepath"
	"testing"

	"github.com/scigolib/hdf5/internal/core"
)

// c09Select picks the elements of a row-major "full" array that a
// (start, count) box selects, in row-major order of the selection.
func c09Select(full []float64, dims, start, count []uint64) []float64 {
	var out []float64
	coords := make([]uint64, len(dims))
	var rec func(d int)
	rec = func(d int) {
		if d == len(dims) {
			off, stride := uint64(0), uint64(1)
			for i := len(dims) - 1; i >= 0; i-- {
				off += coords[i] * stride
				stride *= dims[i]
			}
			out = append(out, full[off])
			return
		}
		for c := uint64(0); c < count[d]; c++ {
			coords[d] = start[d] + c
			rec(d + 1)
		}
	}
	rec(0)
	return out
}

// c09PrepareFile copies the HDF5-library-generated file fill18.h5
// (dataset /DS1: int32, dims 6x10, chunks 4x4, so there are partial edge chunks
// in BOTH dimensions) into a temp dir and overwrites the raw bytes of every
// stored chunk with distinct values, so that wrong in-chunk offsets are visible.
// (The original file holds the constant fill value 99 in all edge chunks.)
func c09PrepareFile(t *testing.T) string {
	t.Helper()

	src := filepath.Join("testdata", "hdf5_official", "fill18.h5")
	raw, err := os.ReadFile(src)
	if err != nil {
		t.Fatalf("read %s: %v", src, err)
	}
	dst := filepath.Join(t.TempDir(), "fill18_distinct.h5")
	if err := os.WriteFile(dst, raw, 0o600); err != nil {
		t.Fatalf("write copy: %v", err)
	}

	f, err := Open(dst)
	if err != nil {
		t.Fatalf("Open: %v", err)
	}
	ds, ok := findDatasetByName(f, "DS1")
	if !ok {
		t.Fatal("dataset DS1 not found")
	}
	header, err := core.ReadObjectHeader(f.osFile, ds.address, f.sb)
	if err != nil {
		t.Fatalf("ReadObjectHeader: %v", err)
	}
	info, err := core.ReadDatasetInfo(header, f.sb)
	if err != nil {
		t.Fatalf("ReadDatasetInfo: %v", err)
	}
	if !info.Layout.IsChunked() || info.Datatype.Size != 4 || !info.Datatype.IsInt32() {
		t.Fatalf("unexpected dataset shape: %s", info)
	}
	chunkDims := info.Layout.ChunkSize
	node, err := core.ParseBTreeV1Node(f.osFile, info.Layout.DataAddress, f.sb.OffsetSize, len(chunkDims), chunkDims)
	if err != nil {
		t.Fatalf("ParseBTreeV1Node: %v", err)
	}
	chunks, err := node.CollectAllChunks(f.osFile, f.sb.OffsetSize, chunkDims)
	if err != nil {
		t.Fatalf("CollectAllChunks: %v", err)
	}
	byteOrder := info.Datatype.GetByteOrder()
	_ = f.Close()

	out, err := os.OpenFile(dst, os.O_RDWR, 0)
	if err != nil {
		t.Fatalf("reopen for patching: %v", err)
	}
	defer func() { _ = out.Close() }()
	for ci, c := range chunks {
		buf := make([]byte, c.Key.Nbytes)
		for e := 0; e*4+4 <= len(buf); e++ {
			//nolint:gosec // small test values
			byteOrder.PutUint32(buf[e*4:], uint32(1000*(ci+1)+e))
		}
		//nolint:gosec // test file offsets
		if _, err := out.WriteAt(buf, int64(c.Address)); err != nil {
			t.Fatalf("patch chunk %d: %v", ci, err)
		}
	}
	return dst
}

// TestFindingC09_ChunkOrderEndToEnd: ReadSlice of a box that spans two chunks in the second dimension and two rows
// must agree with the same box cut out of the full Read (dataset 6x10, chunks 4x4).
func TestFindingC09_ChunkOrderEndToEnd(t *testing.T) {
	path := c09PrepareFile(t)
	f, err := Open(path)
	if err != nil {
		t.Fatalf("Open: %v", err)
	}
	defer func() { _ = f.Close() }()
	ds, ok := findDatasetByName(f, "DS1")
	if !ok {
		t.Fatal("dataset DS1 not found")
	}
	dims := []uint64{6, 10}
	full, err := ds.Read()
	if err != nil {
		t.Fatalf("Read: %v", err)
	}
	start, count := []uint64{0, 2}, []uint64{2, 4}
	got, err := ds.ReadSlice(start, count)
	if err != nil {
		t.Fatalf("ReadSlice: %v", err)
	}
	want := c09Select(full, dims, start, count)
	g, _ := got.([]float64)
	if len(g) != len(want) {
		t.Fatalf("got %d elements, want %d", len(g), len(want))
	}
	for i := range g {
		if g[i] != want[i] {
			t.Fatalf("ReadSlice(%v,%v)\n got  %v\n want %v (from full Read)", start, count, g, want)
		}
	}
}
