package structures

import (
	"fmt"
	"testing"
	"time"
)

// KNOWN FINDING (C18): the incremental rebalancer's goroutine reads and writes the index's lazy-rebalancing state
// (bt.lazyState and its UnderflowNodes / UnderflowCount / PendingDeletes / LastRebalance) without any lock while
// foreground deletes and progress queries use it, and foreground code reads IncrementalRebalancer.running without
// holding its mutex. Run with the race detector: `go test -race` reports DATA RACE on these fields.
func TestReplayLazyStateRace(t *testing.T) {
	bt := NewWritableBTreeV2(65536)
	for i := 0; i < 2000; i++ {
		if err := bt.InsertRecord(fmt.Sprintf("name_%d", i), uint64(i)); err != nil {
			t.Fatal(err)
		}
	}
	cfg := DefaultLazyConfig()
	cfg.Threshold = 0.20
	bt.EnableLazyRebalancing(cfg)
	ic := DefaultIncrementalConfig()
	ic.Interval = 50 * time.Microsecond
	ic.Budget = 20 * time.Microsecond
	if err := bt.EnableIncrementalRebalancing(ic); err != nil {
		t.Fatal(err)
	}
	deadline := time.Now().Add(300 * time.Millisecond)
	i := 0
	for time.Now().Before(deadline) && i < 2000 {
		_ = bt.DeleteRecordLazy(fmt.Sprintf("name_%d", i))
		_, _ = bt.GetIncrementalRebalancingProgress()
		_ = bt.IsIncrementalRebalancingEnabled()
		i++
		if i%50 == 0 {
			time.Sleep(100 * time.Microsecond)
		}
	}
	_ = bt.StopIncrementalRebalancing()
	t.Logf("foreground performed %d lazy deletes next to the background ticker", i)
}

// KNOWN FINDING (C18): IsIncrementalRebalancingEnabled / EnableIncrementalRebalancing read IncrementalRebalancer.running
// without the mutex; the goroutine clears it (under the mutex) when a stop is requested from another goroutine.
func TestReplayRunningFlagRace(t *testing.T) {
	for round := 0; round < 20; round++ {
		bt := NewWritableBTreeV2(4096)
		bt.EnableLazyRebalancing(DefaultLazyConfig())
		ic := DefaultIncrementalConfig()
		ic.Interval = time.Millisecond
		if err := bt.EnableIncrementalRebalancing(ic); err != nil {
			t.Fatal(err)
		}
		done := make(chan struct{})
		go func() {
			defer close(done)
			for k := 0; k < 2000; k++ {
				_ = bt.IsIncrementalRebalancingEnabled()
			}
		}()
		_ = bt.StopIncrementalRebalancing()
		<-done
	}
}
