package main

import (
	"fmt"
	"go/token"
	"go/types"
	"sort"
	"strings"
	"sync"

	"golang.org/x/tools/go/ssa"
)

var defaultKinds = []string{"idx", "slice", "div0", "neglen", "alloc-cap", "assert-type", "negshift", "nil-map",
	"pre", "post", "inv-init", "inv-pres", "decreases", "lemma", "panic-call", "spec", "frame"}

type FuncResult struct {
	Func    string
	Obs     []*Oblig
	Partial []string
	Fatal   string
	HasContract bool
	Ctx     *Ctx
	Params  []ModelVar
	AutoInv  int
	AutoInvs []string
	IntMode  bool
}

// generateAll generates the obligations of functions and lemmas: first all bit-vector-mode items,
// then (with the global integer mode switched) all int-mode items.
func (e *Env) generateAll(fns []*ssa.Function, lems []*Lemma, extraKinds []string) []*FuncResult {
	results := make([]*FuncResult, len(fns)+len(lems))
	for pass := 0; pass < 2; pass++ {
		intPass := pass == 1
		setIntMode(intPass)
		var wg sync.WaitGroup
		sem := make(chan bool, 8)
		for i, f := range fns {
			c := e.contractOf(f)
			if (c != nil && c.IntMode) != intPass {
				continue
			}
			wg.Add(1)
			go func(i int, f *ssa.Function) {
				defer wg.Done()
				sem <- true
				results[i] = e.verifyFunc(f, extraKinds)
				results[i].IntMode = intPass
				<-sem
			}(i, f)
		}
		for j, lm := range lems {
			if lm.IntMode != intPass {
				continue
			}
			wg.Add(1)
			go func(j int, lm *Lemma) {
				defer wg.Done()
				sem <- true
				results[len(fns)+j] = e.verifyLemma(lm)
				results[len(fns)+j].IntMode = intPass
				<-sem
			}(j, lm)
		}
		wg.Wait()
	}
	setIntMode(false)
	return results
}

func shortText(s string) string {
	s = strings.Join(strings.Fields(s), " ")
	if len(s) > 100 {
		s = s[:100] + "…"
	}
	return s
}

// verifyFunc generates all obligations of one function.
func (e *Env) verifyFunc(fn *ssa.Function, extraKinds []string) *FuncResult {
	return e.verifyFuncAuto(fn, extraKinds, solveCfg{})
}

func (e *Env) verifyFuncWith(fn *ssa.Function, extraKinds []string, auto map[*ssa.BasicBlock][]*autoInv) (res *FuncResult) {
	ft := &FT{auto: auto, e: e, c: NewCtx(), fn: fn, memSyms: map[string]Term{}, partial: map[string]bool{}, names: map[string]int{}, kinds: map[string]bool{}}
	res = &FuncResult{Func: funcName(fn), Ctx: ft.c}
	defer func() {
		if r := recover(); r != nil {
			res.Fatal = fmt.Sprintf("translator panic: %v", r)
			res.Obs = nil
		}
	}()
	for _, k := range defaultKinds {
		ft.kinds[k] = true
	}
	for _, k := range extraKinds {
		ft.kinds[k] = true
	}
	ft.c.Preamble = append(ft.c.Preamble, e.smtPre...)
	con := e.contractOf(fn)
	ft.topCon = con
	if con != nil {
		res.HasContract = true
		for _, k := range con.Kinds {
			if strings.HasPrefix(k, "-") {
				delete(ft.kinds, k[1:])
			} else {
				ft.kinds[k] = true
			}
		}
	}
	fr := &frame{ft: ft, fn: fn, vals: map[ssa.Value]*Val{}, dbg: map[types.Object][]ssa.Value{}, con: con}
	mem := newMem()
	ft.entryMem = mem.clone()
	fr.oldMem = ft.entryMem
	for _, p := range fn.Params {
		v := ft.freshInput("p$"+p.Name(), p.Type())
		fr.vals[p] = v
		if isSlice(p.Type()) {
			ft.noteLen(v.sLen())
		}
		fr.args = append(fr.args, v)
		for i, l := range leavesOf(p.Type()) {
			res.Params = append(res.Params, ModelVar{Label: p.Name() + l.Path, Term: v.L[i], Needs: []string{v.L[i].T}})
		}
		// element values of integer slices / bytes of strings (first 48) for replay
		if isSlice(p.Type()) {
			if w, _, ok := isIntType(sliceElem(p.Type())); ok {
				comp := "E:" + typeKey(sliceElem(p.Type()))
				m := ft.memGet(mem, comp, SArr(SInt, SArr(SIdx, SBV(w))))
				for k := 0; k < 48; k++ {
					t := mkSelect(mkSelect(m, v.sRef()), app(SIdx, "bvadd", v.sOff(), idxInt(int64(k))))
					res.Params = append(res.Params, ModelVar{Label: fmt.Sprintf("%s[%d]", p.Name(), k), Term: t, Needs: []string{m.T, v.sRef().T, v.sOff().T}})
				}
			}
		} else if isString(p.Type()) {
			for k := 0; k < 48; k++ {
				t := mkSelect(v.strArr(), app(SIdx, "bvadd", v.strOff(), idxInt(int64(k))))
				res.Params = append(res.Params, ModelVar{Label: fmt.Sprintf("%s[%d]", p.Name(), k), Term: t, Needs: []string{v.strArr().T, v.strOff().T}})
			}
		}
	}
	for _, fv := range fn.FreeVars {
		v := ft.freshVal("fv$"+fv.Name(), fv.Type())
		fr.free = append(fr.free, v)
	}
	ft.params = res.Params
	pc := tTrue
	fr.cur = &bstate{pc: pc, mem: mem}
	fr.curBlock = fn.Blocks[0]
	if con != nil {
		sc := &Scope{fr: fr, mem: mem, old: mem, vars: map[string]*sv{}, res: fr.resolver(nil, nil), pkg: fr.pkg()}
		var pres []Term
		for _, r := range con.Requires {
			t := sc.evalBool(r.E)
			if sc.err != nil {
				res.Fatal = fmt.Sprintf("%s:%d: requires: %v", r.File, r.Line, sc.err)
				return res
			}
			pres = append(pres, t)
		}
		for _, a := range con.Assigns {
			if mentionsResult(a.E) {
				continue // result locations are fresh or covered by parameter items
			}
			it, err := sc.evalAssignItem(a)
			if err != nil {
				res.Fatal = fmt.Sprintf("%s:%d: %v", a.File, a.Line, err)
				return res
			}
			ft.assignItems = append(ft.assignItems, it)
		}
		pc = ft.c.Define("pre", mkAnd(pres...))
		// vacuity guard: the precondition must be satisfiable
		if len(pres) > 0 {
			ft.obs = append(ft.obs, &Oblig{Name: funcName(fn) + "#cover#requires#0", Kind: "cover", Func: funcName(fn), Text: "requires satisfiable",
				Hyp: pc, Goal: tTrue, Cover: true})
		}
	}
	fr.run(pc, mem)
	if ft.fatal != "" {
		res.Fatal = ft.fatal
		return res
	}
	// postconditions
	if con != nil {
		for _, rs := range fr.rets {
			fr.cur = &bstate{pc: rs.pc, mem: rs.mem}
			sc := fr.postScope(fn, con, rs.vals, rs.mem, ft.entryMem, fr.args)
			for _, en := range con.Ensures {
				t := sc.evalBool(en.E)
				if sc.err != nil {
					res.Fatal = fmt.Sprintf("%s:%d: ensures: %v", en.File, en.Line, sc.err)
					return res
				}
				fr.obligeAt(rs.pc, "post", shortText(en.Src), rs.pos, t)
			}
		}
	}
	if con != nil && con.Abstracts != "" {
		ob := &Oblig{Name: funcName(fn) + "#purity#abstracts " + con.Abstracts + "#0", Kind: "purity", Func: funcName(fn), Text: "abstracts " + con.Abstracts,
			Hyp: tTrue, Goal: tTrue, Pre: true, Backend: "syntactic purity check over go/ssa"}
		if why := impure(fn); why == "" {
			ob.Status = "discharged"
		} else {
			ob.Status = "failed-unknown"
			ob.Output = "function is not a pure function of its argument values: " + why
		}
		ft.obs = append(ft.obs, ob)
	}
	res.Obs = ft.obs
	for k := range ft.partial {
		res.Partial = append(res.Partial, k)
	}
	sort.Strings(res.Partial)
	return res
}

// impure: "" if the function's result is a deterministic function of its argument values: it writes only
// memory it allocates itself, reads only its parameters (strings are immutable) and its own allocations, and
// calls nothing but len/cap.
func impure(fn *ssa.Function) string {
	local := map[ssa.Value]bool{}
	var isLocal func(v ssa.Value) bool
	isLocal = func(v ssa.Value) bool {
		switch x := v.(type) {
		case *ssa.Alloc:
			return true
		case *ssa.IndexAddr:
			return isLocal(x.X)
		case *ssa.FieldAddr:
			return isLocal(x.X)
		case *ssa.Slice:
			return isLocal(x.X)
		}
		return local[v]
	}
	for _, p := range fn.Params {
		if !isString(p.Type()) {
			if _, _, ok := isIntType(p.Type()); !ok && !isBoolType(p.Type()) {
				if _, okf := isFloatType(p.Type()); !okf {
					return "parameter " + p.Name() + " is not a scalar or string"
				}
			}
		}
	}
	for _, b := range fn.Blocks {
		for _, in := range b.Instrs {
			switch x := in.(type) {
			case *ssa.Store:
				if !isLocal(x.Addr) {
					return "store to non-local memory"
				}
			case *ssa.UnOp:
				if x.Op == token.MUL && !isLocal(x.X) {
					return "load from non-local memory"
				}
				if x.Op == token.ARROW {
					return "channel receive"
				}
			case *ssa.Call:
				if bi, ok := x.Call.Value.(*ssa.Builtin); ok && (bi.Name() == "len" || bi.Name() == "cap") {
					continue
				}
				return "call to " + calleeName(&x.Call)
			case *ssa.Go, *ssa.Defer, *ssa.Send, *ssa.Select, *ssa.MapUpdate, *ssa.MakeClosure, *ssa.Range, *ssa.Next:
				return fmt.Sprintf("unsupported instruction %T", in)
			}
		}
	}
	return ""
}

func (fr *frame) obligeAt(hyp Term, kind, text string, pos token.Pos, goal Term) {
	ft := fr.ft
	if goal.T == "true" {
		// still record trivially-true obligations as discharged? skip: nothing to prove
		return
	}
	if !ft.kinds[kind] && !ft.kinds["*"] {
		return
	}
	base := fmt.Sprintf("%s#%s#%s", ft.fname(), kind, text)
	k := ft.names[base]
	ft.names[base] = k + 1
	ft.obs = append(ft.obs, &Oblig{Name: fmt.Sprintf("%s#%d", base, k), Kind: kind, Func: ft.fname(), Text: text,
		Pos: ft.e.pos(pos), Hyp: hyp, Goal: goal})
}

// postScope: scope for evaluating ensures clauses of fn given argument and result values.
func (fr *frame) postScope(fn *ssa.Function, con *Contract, results []*Val, mem, old *Mem, args []*Val) *Scope {
	sc := &Scope{fr: fr, mem: mem, old: old, vars: map[string]*sv{}, pkg: fnPkg(fn)}
	for i, p := range fn.Params {
		if i < len(args) {
			a := *args[i]
			a.T = p.Type()
			sc.vars[p.Name()] = &sv{v: &a}
		}
	}
	rs := fn.Signature.Results()
	for i := 0; i < rs.Len() && i < len(results); i++ {
		r := *results[i]
		r.T = rs.At(i).Type()
		if n := rs.At(i).Name(); n != "" && n != "_" {
			sc.vars[n] = &sv{v: &r}
		}
		sc.vars[fmt.Sprintf("result%d", i)] = &sv{v: &r}
		if i == 0 {
			sc.vars["result"] = &sv{v: &r}
		}
		if i == rs.Len()-1 && isInterface(rs.At(i).Type()) && rs.At(i).Type().String() == "error" {
			if _, taken := sc.vars["err"]; !taken {
				sc.vars["err"] = &sv{v: &r}
			}
		}
	}
	return sc
}

// resultBase: the identifier at the root of a location expression, if it is a result name.
func resultBase(e *SExpr) *SExpr {
	for e != nil {
		if e.Op == "id" {
			return e
		}
		if len(e.Args) == 0 {
			return nil
		}
		e = e.Args[0]
	}
	return nil
}

func fnPkg(fn *ssa.Function) *types.Package {
	f := fn
	for f.Parent() != nil {
		f = f.Parent()
	}
	if f.Pkg != nil {
		return f.Pkg.Pkg
	}
	if f.Object() != nil {
		return f.Object().Pkg()
	}
	return nil
}

func (fr *frame) loopSpec(li *loopInfo) *LoopSpec {
	if fr.con == nil {
		return nil
	}
	return fr.con.Loops[li.ordinal]
}

func (fr *frame) checkInvariants(li *loopInfo, hyp Term, mem *Mem, over map[*ssa.Phi]*Val, kind string, pos token.Pos) {
	if fr.depth == 0 && fr.ft.auto != nil {
		ak := "auto-init"
		if kind == "inv-pres" {
			ak = "auto-pres"
		}
		for _, a := range fr.ft.auto[li.head] {
			if a.dead {
				continue
			}
			if t, ok := fr.autoTerm(a, over); ok {
				fr.ft.obs = append(fr.ft.obs, &Oblig{Name: fr.ft.fname() + "#" + ak + "#" + a.id, Kind: ak, Func: fr.ft.fname(), Text: a.id, Hyp: hyp, Goal: t})
			} else {
				a.dead = true
			}
		}
	}
	ls := fr.loopSpec(li)
	if ls == nil {
		return
	}
	sc := &Scope{fr: fr, mem: mem, old: fr.oldMem, vars: map[string]*sv{}, res: fr.resolver(li, over), pkg: fr.pkg()}
	for _, inv := range ls.Invariants {
		t := sc.evalBool(inv.E)
		if sc.err != nil {
			fr.ft.fatal = fmt.Sprintf("%s:%d: invariant: %v", inv.File, inv.Line, sc.err)
			return
		}
		fr.obligeAt(hyp, kind, fmt.Sprintf("loop %d: %s", li.ordinal, shortText(inv.Src)), pos, t)
	}
}

func (fr *frame) assumeInvariants(li *loopInfo) {
	if fr.depth == 0 && fr.ft.auto != nil {
		for _, a := range fr.ft.auto[li.head] {
			if a.dead {
				continue
			}
			if t, ok := fr.autoTerm(a, nil); ok {
				fr.assume(t)
			}
		}
	}
	ls := fr.loopSpec(li)
	if ls == nil {
		return
	}
	sc := &Scope{fr: fr, mem: fr.cur.mem, old: fr.oldMem, vars: map[string]*sv{}, res: fr.resolver(li, nil), pkg: fr.pkg()}
	for _, inv := range ls.Invariants {
		t := sc.evalBool(inv.E)
		if sc.err != nil {
			fr.ft.fatal = fmt.Sprintf("%s:%d: invariant: %v", inv.File, inv.Line, sc.err)
			return
		}
		fr.assume(t)
	}
}

// callByContract: assert pre, havoc what the callee may write, assume post.
func (fr *frame) callByContract(con *Contract, callee *ssa.Function, c *ssa.CallCommon, args []*Val, rt types.Type, pos token.Pos) *Val {
	ft := fr.ft
	if callee == nil {
		fr.havocCall(c)
		return fr.freshTuple("inv", rt)
	}
	pre := fr.cur.mem.clone()
	scPre := &Scope{fr: fr, mem: pre, old: pre, vars: map[string]*sv{}, pkg: fnPkg(callee)}
	for i, p := range callee.Params {
		if i < len(args) {
			a := *args[i]
			a.T = p.Type()
			scPre.vars[p.Name()] = &sv{v: &a}
		}
	}
	for _, r := range con.Requires {
		t := scPre.evalBool(r.E)
		if scPre.err != nil {
			ft.fatal = fmt.Sprintf("%s:%d: requires (at call): %v", r.File, r.Line, scPre.err)
			return nil
		}
		fr.oblige("pre", fmt.Sprintf("%s: %s", callee.Name(), shortText(r.Src)), pos, t)
	}
	var results []*Val
	rs := callee.Signature.Results()
	if con.HasAssigns {
		var items []*assignItem
		for _, a := range con.Assigns {
			if mentionsResult(a.E) {
				continue
			}
			it, err := scPre.evalAssignItem(a)
			if err != nil {
				ft.fatal = fmt.Sprintf("%s:%d: %v", a.File, a.Line, err)
				return nil
			}
			items = append(items, it)
			// the caller's own frame must allow what the callee may write
			var cs []string
			for c := range it.comps {
				cs = append(cs, c)
			}
			sort.Strings(cs)
			fr.frameCheck(cs, it.ref, fmt.Sprintf("%s assigns %s", callee.Name(), a.Src), pos)
		}
		fr.applyAssigns(items)
		for i := 0; i < rs.Len(); i++ {
			r := ft.freshInput(fmt.Sprintf("r$%s$%d", callee.Name(), i), rs.At(i).Type())
			results = append(results, r)
		}
		// result-based items: the result designates memory allocated by the callee
		freshened := map[string]bool{}
		for _, a := range con.Assigns {
			if !mentionsResult(a.E) {
				continue
			}
			scR := fr.postScope(callee, con, results, fr.cur.mem, pre, args)
			// make the result reference fresh (or nil)
			if base := resultBase(a.E); base != nil {
				if rv, ok := scR.vars[base.Name]; ok && rv.v != nil && len(rv.v.L) > 0 && rv.v.L[0].S == SInt {
					if _, isSym := ft.c.decls[rv.v.L[0].T]; isSym && !freshened[rv.v.L[0].T] {
						freshened[rv.v.L[0].T] = true
						isNil := ft.c.Fresh("resnil", SBool)
						ft.c.Assume(rv.v.L[0], mkEq(rv.v.L[0], mkIte(isNil, intConst(0), ft.newRef())))
					}
				}
			}
			it, err := scR.evalAssignItem(a)
			if err != nil {
				ft.fatal = fmt.Sprintf("%s:%d: %v", a.File, a.Line, err)
				return nil
			}
			fr.applyAssigns([]*assignItem{it})
		}
	} else {
		fr.havocCall(c)
		for i := 0; i < rs.Len(); i++ {
			results = append(results, ft.freshInput(fmt.Sprintf("r$%s$%d", callee.Name(), i), rs.At(i).Type()))
		}
	}
	sc := fr.postScope(callee, con, results, fr.cur.mem, pre, args)
	for _, en := range con.Ensures {
		t := sc.evalBool(en.E)
		if sc.err != nil {
			ft.fatal = fmt.Sprintf("%s:%d: ensures (at call): %v", en.File, en.Line, sc.err)
			return nil
		}
		fr.assume(t)
	}
	if con.Abstracts != "" && len(results) == 1 {
		var as []*SExpr
		for _, p := range callee.Params {
			as = append(as, &SExpr{Op: "id", Name: p.Name()})
		}
		eq := &SExpr{Op: "binop", Name: "==", Args: []*SExpr{{Op: "id", Name: "result"}, {Op: "call", Name: con.Abstracts, Args: as}}}
		t := sc.evalBool(eq)
		if sc.err != nil {
			ft.fatal = fmt.Sprintf("%s:%d: abstracts (at call): %v", con.File, con.Line, sc.err)
			return nil
		}
		fr.assume(t)
	}
	switch len(results) {
	case 0:
		return &Val{T: rt, Tup: []*Val{}}
	case 1:
		return results[0]
	}
	return &Val{T: rt, Tup: results}
}
