package hdf5

// Demonstration for the known finding "global heap free-space object size excludes its own header" (properties C12/C05).
// HDF5 File Format Specification III.E (Global Heap): "Object Size ... for Global Heap Object 0 (the free space) the size
// includes the object header". So collection header (16) + sum over objects (16 + padded size) + size(object 0) must
// equal the collection size. Inject with go test -overlay into the package directory of the repository root.

import (
	"encoding/binary"
	"testing"
)

func TestFindingC12_FreeSpaceObjectSizeExcludesHeader(t *testing.T) {
	ghw := &globalHeapWriter{}
	heap := &globalHeapCollectionBuilder{size: 4096, usedSpace: 16, freeSpace: 4080, nextIndex: 1}
	ghw.currentHeap = heap
	buf := ghw.encodeHeapCollection()
	declared := binary.LittleEndian.Uint64(buf[8:16])
	idx := binary.LittleEndian.Uint16(buf[16:18])
	freeObj := binary.LittleEndian.Uint64(buf[24:32])
	if idx != 0 {
		t.Fatalf("expected the free-space object (index 0) at offset 16, got index %d", idx)
	}
	if 16+freeObj != declared {
		t.Errorf("FINDING: collection of declared size %d: header 16 + free-space object size %d = %d (the free-space object size must include its own 16-byte header)", declared, freeObj, 16+freeObj)
	}
}
