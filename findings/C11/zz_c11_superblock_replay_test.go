package core

import (
	"encoding/binary"
	"io"
	"testing"
)

type c11MemFile struct{ b []byte }

func (m *c11MemFile) WriteAt(p []byte, off int64) (int, error) {
	if need := int(off) + len(p); need > len(m.b) {
		m.b = append(m.b, make([]byte, need-len(m.b))...)
	}
	copy(m.b[off:], p)
	return len(p), nil
}

func (m *c11MemFile) ReadAt(p []byte, off int64) (int, error) {
	if int(off) >= len(m.b) {
		return 0, io.EOF
	}
	n := copy(p, m.b[off:])
	if n < len(p) {
		return n, io.EOF
	}
	return n, nil
}

// Property C11, superblock: ReadSuperblock(WriteTo(sb)) == sb, field by field, for the three versions WriteTo accepts.
// (Not tied to a verifier obligation: the verifier's io.WriterAt model does not record the written bytes; observed while
// reading the two functions for the lemma.)
func TestC11SuperblockRoundTrip(t *testing.T) {
	for _, sb := range []*Superblock{
		{Version: 2, OffsetSize: 8, LengthSize: 8, BaseAddress: 0, RootGroup: 48, SuperExtension: 0, Endianness: binary.LittleEndian},
		{Version: 3, OffsetSize: 8, LengthSize: 8, BaseAddress: 0, RootGroup: 48, SuperExtension: 4096, Endianness: binary.LittleEndian},
		{Version: 0, OffsetSize: 8, LengthSize: 8, BaseAddress: 512, RootGroup: 96, RootBTreeAddr: 136, RootHeapAddr: 680, Endianness: binary.LittleEndian},
		{Version: 0, OffsetSize: 8, LengthSize: 8, BaseAddress: 0, RootGroup: 96, RootBTreeAddr: 136, RootHeapAddr: 680, Endianness: binary.LittleEndian},
		{Version: 2, OffsetSize: 8, LengthSize: 8, RootGroup: 48, SuperExtension: 4096, Endianness: binary.BigEndian},
	} {
		f := &c11MemFile{}
		if err := sb.WriteTo(f, 1<<20); err != nil {
			t.Fatalf("v%d: write: %v", sb.Version, err)
		}
		back, err := ReadSuperblock(f)
		if err != nil {
			t.Errorf("v%d: read of the written superblock failed: %v", sb.Version, err)
			continue
		}
		if back.Version != sb.Version || back.OffsetSize != sb.OffsetSize || back.LengthSize != sb.LengthSize {
			t.Errorf("v%d: version/sizes: got %d/%d/%d", sb.Version, back.Version, back.OffsetSize, back.LengthSize)
		}
		if back.RootGroup != sb.RootGroup || back.RootBTreeAddr != sb.RootBTreeAddr || back.RootHeapAddr != sb.RootHeapAddr {
			t.Errorf("v%d: root group: got %d/%d/%d want %d/%d/%d", sb.Version, back.RootGroup, back.RootBTreeAddr, back.RootHeapAddr, sb.RootGroup, sb.RootBTreeAddr, sb.RootHeapAddr)
		}
		if back.BaseAddress != sb.BaseAddress {
			t.Errorf("v%d: BaseAddress: wrote %d, read %d", sb.Version, sb.BaseAddress, back.BaseAddress)
		}
		if back.SuperExtension != sb.SuperExtension {
			t.Errorf("v%d: SuperExtension: wrote %#x, read %#x", sb.Version, sb.SuperExtension, back.SuperExtension)
		}
		if back.Endianness != sb.Endianness {
			t.Errorf("v%d: Endianness: wrote %v, read %v", sb.Version, sb.Endianness, back.Endianness)
		}
	}
}
