package main

import (
	"fmt"
	"go/token"
	"go/types"
	"math/big"
	"strings"

	"golang.org/x/tools/go/ssa"
)

func fpSortOf(w int) string {
	if w == 32 {
		return SF32
	}
	return SF64
}

// convInt converts an integer value between Go integer types.
func convInt(t Term, fw int, fsigned bool, tw int, tsigned bool) Term {
	if !gInt {
		return extendTo(t, fw, fsigned, tw)
	}
	flo, fhi := typeRange(fw, fsigned)
	tlo, thi := typeRange(tw, tsigned)
	if flo.Cmp(tlo) >= 0 && fhi.Cmp(thi) <= 0 {
		return t
	}
	if v, ok := intLitVal(t); ok {
		m := pow2(tw)
		r := new(big.Int).Mod(v, m)
		if tsigned && r.Cmp(pow2(tw-1)) >= 0 {
			r.Sub(r, m)
		}
		return intLitBig(r)
	}
	if !tsigned {
		return Term{SInt, fmt.Sprintf("(mod %s %s)", t.T, pow2(tw).String())}
	}
	h := pow2(tw - 1).String()
	return Term{SInt, fmt.Sprintf("(- (mod (+ %s %s) %s) %s)", t.T, h, pow2(tw).String(), h)}
}

// arith finishes an arithmetic result in int mode: the mathematical result must fit the type
// (obligation kind overflow); afterwards the unwrapped value is the Go value.
func (fr *frame) arith(r Term, w int, signed bool, text string, pos token.Pos) Term {
	if !gInt {
		return r
	}
	r = fr.ft.c.Define("ar", r)
	fr.obligeAlways("overflow", text, pos, inTypeRange(r, w, signed))
	return r
}

func (fr *frame) binop(x *ssa.BinOp) *Val {
	ft := fr.ft
	a, b := fr.val(x.X), fr.val(x.Y)
	t := x.X.Type()
	rt := x.Type()
	mk := func(tm Term) *Val { return &Val{T: rt, L: []Term{tm}} }
	// shifts: operand types differ
	if x.Op == token.SHL || x.Op == token.SHR {
		w, signed, _ := isIntType(t)
		cw, csigned, ok := isIntType(x.Y.Type())
		if !ok {
			return ft.freshVal(x.Name(), rt)
		}
		cnt := b.L[0]
		if csigned {
			fr.oblige("negshift", ft.e.srcText(x.Pos(), "binop"), x.Pos(), app(SBool, "bvsge", cnt, bvInt(cw, 0)))
		}
		// bring count to operand width, saturating
		var c Term
		if cw <= w {
			c = extendTo(cnt, cw, false, w)
		} else {
			big := app(SBool, "bvuge", cnt, bvInt(cw, int64(w)))
			c = mkIte(big, bvInt(w, int64(w)), extendTo(cnt, cw, false, w))
		}
		switch {
		case x.Op == token.SHL && gInt:
			return mk(fr.arith(app(SBV(w), "bvshl", a.L[0], c), w, signed, ft.e.srcText(x.Pos(), "binop"), x.Pos()))
		case x.Op == token.SHL:
			return mk(app(SBV(w), "bvshl", a.L[0], c))
		case signed:
			return mk(app(SBV(w), "bvashr", a.L[0], c))
		default:
			return mk(app(SBV(w), "bvlshr", a.L[0], c))
		}
	}
	if w, signed, ok := isIntType(t); ok {
		s := SBV(w)
		p, q := a.L[0], b.L[0]
		switch x.Op {
		case token.ADD:
			return mk(fr.arith(app(s, "bvadd", p, q), w, signed, ft.e.srcText(x.Pos(), "binop"), x.Pos()))
		case token.SUB:
			return mk(fr.arith(app(s, "bvsub", p, q), w, signed, ft.e.srcText(x.Pos(), "binop"), x.Pos()))
		case token.MUL:
			return mk(fr.arith(app(s, "bvmul", p, q), w, signed, ft.e.srcText(x.Pos(), "binop"), x.Pos()))
		case token.QUO, token.REM:
			fr.oblige("div0", ft.e.srcText(x.Pos(), "binop"), x.Pos(), mkNot(mkEq(q, bvInt(w, 0))))
			op := map[bool]map[token.Token]string{true: {token.QUO: "bvsdiv", token.REM: "bvsrem"}, false: {token.QUO: "bvudiv", token.REM: "bvurem"}}[signed][x.Op]
			return mk(app(s, op, p, q))
		case token.AND:
			return mk(fr.bitRes(app(s, "bvand", p, q), w, signed))
		case token.OR:
			return mk(fr.bitRes(app(s, "bvor", p, q), w, signed))
		case token.XOR:
			return mk(fr.bitRes(app(s, "bvxor", p, q), w, signed))
		case token.AND_NOT:
			return mk(fr.bitRes(app(s, "bvand", p, app(s, "bvnot", q)), w, signed))
		case token.EQL:
			return mk(mkEq(p, q))
		case token.NEQ:
			return mk(mkNot(mkEq(p, q)))
		case token.LSS, token.LEQ, token.GTR, token.GEQ:
			op := map[token.Token]string{token.LSS: "lt", token.LEQ: "le", token.GTR: "gt", token.GEQ: "ge"}[x.Op]
			if signed {
				return mk(app(SBool, "bvs"+op, p, q))
			}
			return mk(app(SBool, "bvu"+op, p, q))
		}
	}
	if w, ok := isFloatType(t); ok {
		s := fpSortOf(w)
		p, q := a.L[0], b.L[0]
		rm := Term{"RoundingMode", "RNE"}
		switch x.Op {
		case token.ADD:
			return mk(app(s, "fp.add", rm, p, q))
		case token.SUB:
			return mk(app(s, "fp.sub", rm, p, q))
		case token.MUL:
			return mk(app(s, "fp.mul", rm, p, q))
		case token.QUO:
			return mk(app(s, "fp.div", rm, p, q))
		case token.EQL:
			return mk(app(SBool, "fp.eq", p, q))
		case token.NEQ:
			return mk(mkNot(app(SBool, "fp.eq", p, q)))
		case token.LSS:
			return mk(app(SBool, "fp.lt", p, q))
		case token.LEQ:
			return mk(app(SBool, "fp.leq", p, q))
		case token.GTR:
			return mk(app(SBool, "fp.gt", p, q))
		case token.GEQ:
			return mk(app(SBool, "fp.geq", p, q))
		}
	}
	if isBoolType(t) {
		switch x.Op {
		case token.EQL:
			return mk(mkEq(a.L[0], b.L[0]))
		case token.NEQ:
			return mk(mkNot(mkEq(a.L[0], b.L[0])))
		case token.AND, token.LAND:
			return mk(mkAnd(a.L[0], b.L[0]))
		case token.OR, token.LOR:
			return mk(mkOr(a.L[0], b.L[0]))
		}
	}
	if isString(t) {
		switch x.Op {
		case token.EQL:
			return mk(fr.strEq(a, b))
		case token.NEQ:
			return mk(mkNot(fr.strEq(a, b)))
		case token.ADD:
			r := ft.freshVal(x.Name(), rt)
			ft.c.Assume(r.L[2], mkEq(r.L[2], app(SIdx, "bvadd", a.strLen(), b.strLen())))
			ft.c.Assume(r.L[1], mkEq(r.L[1], idxInt(0)))
			return r
		}
		return ft.freshVal(x.Name(), rt)
	}
	// pointers, interfaces, structs, arrays, chans: leafwise comparison
	if x.Op == token.EQL || x.Op == token.NEQ {
		eq := fr.valEq(a, b)
		if x.Op == token.NEQ {
			eq = mkNot(eq)
		}
		return mk(eq)
	}
	ft.note(fmt.Sprintf("unsupported binop %s on %s", x.Op, t))
	return ft.freshVal(x.Name(), rt)
}

// bitRes: in int mode the result of a bit operation modelled by an uninterpreted function is known to lie in the type's range.
func (fr *frame) bitRes(r Term, w int, signed bool) Term {
	if !gInt || !strings.Contains(r.T, "uf_bv") {
		return r
	}
	ft := fr.ft
	ft.c.addPre("intmode", intModePreamble)
	v := ft.c.Fresh("bit", SInt)
	ft.c.Assume(v, mkEq(v, r))
	ft.c.Assume(v, inTypeRange(v, w, signed))
	return v
}

func (fr *frame) valEq(a, b *Val) Term {
	if len(a.L) != len(b.L) {
		return fr.ft.c.Fresh("eq", SBool)
	}
	// slice compared with nil: a slice is nil iff its array pointer is nil
	if len(a.L) == 4 && (isSlice(a.T) || isSlice(b.T)) && (isZeroSliceVal(a) || isZeroSliceVal(b)) {
		return mkEq(a.L[0], b.L[0])
	}
	if isInterface(a.T) || isInterface(b.T) {
		// comparison with nil: tag only
		if a.L[0].T == "0" || b.L[0].T == "0" {
			return mkEq(a.L[0], b.L[0])
		}
		// equal tag and payload implies equal; otherwise unknown (boxed non-pointer payloads)
		e := fr.ft.c.Fresh("ifeq", SBool)
		fr.ft.c.Assume(e, mkImp(mkAnd(mkEq(a.L[0], b.L[0]), mkEq(a.L[1], b.L[1])), e))
		fr.ft.c.Assume(e, mkImp(e, mkEq(a.L[0], b.L[0])))
		// dynamic types of size zero (e.g. binary.littleEndian): equal types imply equal values
		for _, z := range []int64{leTag(fr.ft.e), beTag(fr.ft.e)} {
			fr.ft.c.Assume(e, mkImp(mkAnd(mkEq(a.L[0], intConst(z)), mkEq(b.L[0], intConst(z))), e))
		}
		return e
	}
	var cs []Term
	for i := range a.L {
		if isFP(a.L[i].S) {
			cs = append(cs, app(SBool, "fp.eq", a.L[i], b.L[i]))
		} else {
			cs = append(cs, mkEq(a.L[i], b.L[i]))
		}
	}
	return mkAnd(cs...)
}

func (fr *frame) strEq(a, b *Val) Term {
	ft := fr.ft
	lit, other := a, b
	if lit.Lit == nil {
		lit, other = b, a
	}
	if lit.Lit != nil && len(*lit.Lit) <= 64 {
		s := *lit.Lit
		cs := []Term{mkEq(other.strLen(), idxInt(int64(len(s))))}
		for i := 0; i < len(s); i++ {
			cs = append(cs, mkEq(mkSelect(other.strArr(), app(SIdx, "bvadd", other.strOff(), idxInt(int64(i)))), bvInt(8, int64(s[i]))))
		}
		return mkAnd(cs...)
	}
	e := ft.c.Fresh("streq", SBool)
	ft.c.Assume(e, mkImp(e, mkEq(a.strLen(), b.strLen())))
	ft.c.Assume(e, mkImp(mkAnd(mkEq(a.strLen(), b.strLen()), mkEq(a.strArr(), b.strArr()), mkEq(a.strOff(), b.strOff())), e))
	k := ft.c.BoundVar("k")
	kt := Term{SIdx, k}
	q := ft.c.Quant(false, k, SIdx, mkImp(idxInRange(kt, a.strLen()),
		mkEq(mkSelect(a.strArr(), app(SIdx, "bvadd", a.strOff(), kt)), mkSelect(b.strArr(), app(SIdx, "bvadd", b.strOff(), kt)))))
	ft.c.Assume(e, mkImp(e, q))
	return e
}

func (fr *frame) unop(x *ssa.UnOp) *Val {
	ft := fr.ft
	a := fr.val(x.X)
	switch x.Op {
	case token.MUL: // load
		return fr.loadFrom(a, x.Type(), x.Pos())
	case token.NOT:
		return &Val{T: x.Type(), L: []Term{mkNot(a.L[0])}}
	case token.SUB:
		if w, signed, ok := isIntType(x.Type()); ok {
			return &Val{T: x.Type(), L: []Term{fr.arith(app(SBV(w), "bvneg", a.L[0]), w, signed, "-x", x.Pos())}}
		}
		if w, ok := isFloatType(x.Type()); ok {
			return &Val{T: x.Type(), L: []Term{app(fpSortOf(w), "fp.neg", a.L[0])}}
		}
	case token.XOR:
		if w, signed, ok := isIntType(x.Type()); ok {
			if gInt {
				// ^x = -x-1 (signed) or 2^w-1-x (unsigned)
				if signed {
					return &Val{T: x.Type(), L: []Term{{SInt, fmt.Sprintf("(- (- %s) 1)", a.L[0].T)}}}
				}
				return &Val{T: x.Type(), L: []Term{{SInt, fmt.Sprintf("(- %s %s)", new(big.Int).Sub(pow2(w), big.NewInt(1)).String(), a.L[0].T)}}}
			}
			return &Val{T: x.Type(), L: []Term{app(SBV(w), "bvnot", a.L[0])}}
		}
	case token.ARROW:
		ft.note("channel receive havocked")
		if x.CommaOk {
			return fr.freshTuple(x.Name(), x.Type())
		}
		return ft.freshVal(x.Name(), x.Type())
	}
	ft.note(fmt.Sprintf("unsupported unop %s on %s", x.Op, x.X.Type()))
	return ft.freshVal(x.Name(), x.Type())
}

func (fr *frame) convert(xv ssa.Value, to types.Type, pos token.Pos) *Val {
	ft := fr.ft
	a := fr.val(xv)
	from := xv.Type()
	fw, fsigned, fint := isIntType(from)
	tw, tsigned, tint := isIntType(to)
	ffw, ffl := isFloatType(from)
	tfw, tfl := isFloatType(to)
	rm := "RNE"
	switch {
	case fint && tint:
		return &Val{T: to, L: []Term{convInt(a.L[0], fw, fsigned, tw, tsigned)}}
	case fint && tfl:
		op := "to_fp_unsigned"
		if fsigned {
			op = "to_fp"
		}
		eb, sb := 11, 53
		if tfw == 32 {
			eb, sb = 8, 24
		}
		if gInt {
			return &Val{T: to, L: []Term{{fpSortOf(tfw), fmt.Sprintf("((_ to_fp %d %d) %s (to_real %s))", eb, sb, rm, a.L[0].T)}}}
		}
		return &Val{T: to, L: []Term{{fpSortOf(tfw), fmt.Sprintf("((_ %s %d %d) %s %s)", op, eb, sb, rm, a.L[0].T)}}}
	case ffl && tint:
		op := "fp.to_ubv"
		if tsigned {
			op = "fp.to_sbv"
		}
		// Go: result is implementation-defined when out of range; obligation kind conv-range guards it.
		r := Term{SBV(tw), fmt.Sprintf("((_ %s %d) RTZ %s)", op, tw, a.L[0].T)}
		if gInt {
			r = Term{SInt, fmt.Sprintf("(to_int (fp.to_real (fp.roundToIntegral RTZ %s)))", a.L[0].T)}
		}
		lo, hi := fpRangeFor(ffw, tw, tsigned)
		fr.oblige("conv-range", ft.e.srcText(pos, "call"), pos, mkAnd(app(SBool, "fp.gt", a.L[0], lo), app(SBool, "fp.lt", a.L[0], hi)))
		return &Val{T: to, L: []Term{r}}
	case ffl && tfl:
		if ffw == tfw {
			return &Val{T: to, L: a.L}
		}
		eb, sb := 11, 53
		if tfw == 32 {
			eb, sb = 8, 24
		}
		return &Val{T: to, L: []Term{{fpSortOf(tfw), fmt.Sprintf("((_ to_fp %d %d) %s %s)", eb, sb, rm, a.L[0].T)}}}
	case isString(from) && isSlice(to):
		// []byte(s): fresh backing array holding the string's bytes
		if bt, ok := sliceElem(to).Underlying().(*types.Basic); ok && bt.Kind() == types.Uint8 {
			ref := ft.newRef()
			comp := "E:" + typeKey(sliceElem(to))
			s := SArr(SInt, SArr(SIdx, SBV(8)))
			arr := ft.memGet(fr.cur.mem, comp, s)
			fr.cur.mem.m[comp] = ft.c.Define("m$"+comp, mkStore(arr, ref, a.strArr()))
			fr.checkLoopMod(comp)
			return &Val{T: to, L: []Term{ref, a.strOff(), a.strLen(), a.strLen()}}
		}
	case isSlice(from) && isString(to):
		if bt, ok := sliceElem(from).Underlying().(*types.Basic); ok && bt.Kind() == types.Uint8 && a.Rg == nil {
			comp := "E:" + typeKey(sliceElem(from))
			s := SArr(SInt, SArr(SIdx, SBV(8)))
			arr := ft.memGet(fr.cur.mem, comp, s)
			snap := ft.c.Define("strsnap", mkSelect(arr, a.sRef()))
			return &Val{T: to, L: []Term{snap, a.sOff(), a.sLen()}}
		}
	case isString(from) && isString(to):
		v := *a
		v.T = to
		return &v
	}
	if len(leavesOf(from)) == len(leavesOf(to)) && typeKey(from.Underlying()) == typeKey(to.Underlying()) {
		v := *a
		v.T = to
		return &v
	}
	ft.note(fmt.Sprintf("conversion %s -> %s havocked", from, to))
	return ft.freshVal("conv", to)
}

// fpRangeFor returns exclusive float bounds (lo, hi) such that lo < x < hi implies
// trunc(x) fits in the integer type.
func fpRangeFor(fw, iw int, signed bool) (Term, Term) {
	var lo, hi float64
	if signed {
		hi = float64(uint64(1) << uint(iw-1)) // 2^(w-1)
		lo = -hi - 1
	} else {
		lo = -1
		if iw == 64 {
			hi = 18446744073709551616.0
		} else {
			hi = float64(uint64(1) << uint(iw))
		}
	}
	return fpLit(fw, lo), fpLit(fw, hi)
}
