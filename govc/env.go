package main

import (
	"fmt"
	"go/ast"
	"go/token"
	"go/types"
	"os"
	"sort"
	"strings"
	"sync"

	"golang.org/x/tools/go/packages"
	"golang.org/x/tools/go/ssa"
	"golang.org/x/tools/go/ssa/ssautil"
)

type kindPos struct {
	kind string
	pos  token.Pos
}

type Env struct {
	repo     string
	modPath  string
	fset     *token.FileSet
	pkgs     []*packages.Package
	prog     *ssa.Program
	funcs    map[string]*ssa.Function // by funcName
	exprAt   map[kindPos]ast.Node
	srcCache map[string][]byte
	typeIDs  map[string]int
	contracts map[string]*Contract
	specFuncs map[string]*SpecFunc
	lemmas    []*Lemma
	smtPre    []string
	modCache  map[*ssa.Function]*modSet
	guarded   map[string]string // struct type (pkg.T) -> name of the mutex field that protects its shared fields
	inlCache  map[*ssa.Function]bool
	allNamed  []types.Type
	trusted   map[string]bool
	mu        sync.Mutex
	nonNilGlobals map[string]bool // package-level error variables assigned once, in init, from errors.New/fmt.Errorf
	contractFiles []string
	assumeScan []string
}

func (e *Env) trust(s string) {
	e.mu.Lock()
	e.trusted[s] = true
	e.mu.Unlock()
}

func (e *Env) typeID(k string) int {
	e.mu.Lock()
	defer e.mu.Unlock()
	if id, ok := e.typeIDs[k]; ok {
		return id
	}
	id := len(e.typeIDs) + 1
	e.typeIDs[k] = id
	return id
}

func (e *Env) source(file string) []byte {
	e.mu.Lock()
	defer e.mu.Unlock()
	if b, ok := e.srcCache[file]; ok {
		return b
	}
	b, _ := os.ReadFile(file)
	e.srcCache[file] = b
	return b
}

func loadEnv(repo string) (*Env, error) {
	cfg := &packages.Config{Mode: packages.LoadAllSyntax | packages.NeedModule, Dir: repo, BuildFlags: []string{"-tags=verif"}}
	pkgs, err := packages.Load(cfg, "./...")
	if err != nil {
		return nil, err
	}
	nerr := 0
	packages.Visit(pkgs, nil, func(p *packages.Package) {
		for _, er := range p.Errors {
			fmt.Fprintln(os.Stderr, "load error:", er)
			nerr++
		}
	})
	if nerr > 0 {
		return nil, fmt.Errorf("%d package load errors", nerr)
	}
	prog, _ := ssautil.AllPackages(pkgs, ssa.GlobalDebug)
	prog.Build()
	e := &Env{repo: repo, fset: prog.Fset, pkgs: pkgs, prog: prog, funcs: map[string]*ssa.Function{},
		exprAt: map[kindPos]ast.Node{}, srcCache: map[string][]byte{}, typeIDs: map[string]int{},
		contracts: map[string]*Contract{}, specFuncs: map[string]*SpecFunc{}, modCache: map[*ssa.Function]*modSet{}, guarded: map[string]string{},
		inlCache: map[*ssa.Function]bool{}, trusted: map[string]bool{}}
	if len(pkgs) > 0 && pkgs[0].Module != nil {
		e.modPath = pkgs[0].Module.Path
	}
	for _, p := range pkgs {
		if e.modPath == "" || !strings.HasPrefix(p.PkgPath, e.modPath) {
			continue
		}
		sp := prog.Package(p.Types)
		if sp == nil {
			continue
		}
		for _, m := range sp.Members {
			switch x := m.(type) {
			case *ssa.Function:
				e.addFunc(x)
			case *ssa.Type:
				T := x.Type()
				e.allNamed = append(e.allNamed, T)
				for _, tt := range []types.Type{T, types.NewPointer(T)} {
					ms := prog.MethodSets.MethodSet(tt)
					for i := 0; i < ms.Len(); i++ {
						if f := prog.MethodValue(ms.At(i)); f != nil && f.Synthetic == "" {
							e.addFunc(f)
						}
					}
				}
			}
		}
		for _, f := range p.Syntax {
			ast.Inspect(f, func(n ast.Node) bool {
				switch x := n.(type) {
				case *ast.IndexExpr:
					e.exprAt[kindPos{"index", x.Lbrack}] = x
				case *ast.SliceExpr:
					e.exprAt[kindPos{"slice", x.Lbrack}] = x
				case *ast.CallExpr:
					e.exprAt[kindPos{"call", x.Lparen}] = x
				case *ast.BinaryExpr:
					e.exprAt[kindPos{"binop", x.OpPos}] = x
				case *ast.AssignStmt:
					e.exprAt[kindPos{"binop", x.TokPos}] = x
				case *ast.IncDecStmt:
					e.exprAt[kindPos{"binop", x.TokPos}] = x
				case *ast.TypeAssertExpr:
					e.exprAt[kindPos{"typeassert", x.Lparen}] = x
				case *ast.SelectorExpr:
					e.exprAt[kindPos{"sel", x.Sel.Pos()}] = x
				}
				return true
			})
		}
	}
	e.findNonNilGlobals()
	sort.Slice(e.allNamed, func(i, j int) bool { return e.allNamed[i].String() < e.allNamed[j].String() })
	return e, nil
}

func (e *Env) addFunc(f *ssa.Function) {
	if f == nil || len(f.Blocks) == 0 {
		return
	}
	n := funcName(f)
	if _, ok := e.funcs[n]; ok {
		return
	}
	e.funcs[n] = f
	for _, af := range f.AnonFuncs {
		e.addFunc(af)
	}
}

func (e *Env) contractOf(f *ssa.Function) *Contract {
	return e.contracts[funcName(f)]
}

// findNonNilGlobals: a global of interface type is known non-nil when its only store in the whole module is in a
// package initialiser and stores the result of errors.New / fmt.Errorf.
func (e *Env) findNonNilGlobals() {
	e.nonNilGlobals = map[string]bool{}
	good := map[*ssa.Global]bool{}
	bad := map[*ssa.Global]bool{}
	for _, p := range e.pkgs {
		if e.modPath == "" || !strings.HasPrefix(p.PkgPath, e.modPath) {
			continue
		}
		sp := e.prog.Package(p.Types)
		if sp == nil {
			continue
		}
		var fns []*ssa.Function
		for _, m := range sp.Members {
			if f, ok := m.(*ssa.Function); ok {
				fns = append(fns, f)
				fns = append(fns, f.AnonFuncs...)
			}
		}
		for _, f := range e.funcs {
			if f.Pkg == sp {
				fns = append(fns, f)
			}
		}
		for _, f := range fns {
			for _, b := range f.Blocks {
				for _, in := range b.Instrs {
					st, ok := in.(*ssa.Store)
					if !ok {
						continue
					}
					g, ok := st.Addr.(*ssa.Global)
					if !ok {
						continue
					}
					okStore := false
					if f.Name() == "init" && f.Parent() == nil {
						if c, ok := st.Val.(*ssa.Call); ok {
							if cal := c.Call.StaticCallee(); cal != nil && (cal.String() == "errors.New" || cal.String() == "fmt.Errorf") {
								okStore = true
							}
						}
					}
					if okStore {
						good[g] = true
					} else {
						bad[g] = true
					}
				}
			}
		}
	}
	for g := range good {
		if !bad[g] {
			e.nonNilGlobals["G:"+g.Pkg.Pkg.Name()+"."+g.Name()] = true
		}
	}
}
