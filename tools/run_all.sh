#!/bin/bash
# Runs every registered quick check on the current tree (used before committing evidence).
cd /verif
rc=0
for p in $(python3 -c "import json;print(' '.join(c['property_id'] for c in json.load(open('MANIFEST.json'))['checks']))"); do
  bin/govc check --property $p --tier ${1:-quick} | grep -v '^KNOWN-FINDING' | tail -3 || rc=1
done
exit $rc
