package main

// Frame conditions: `assigns` clauses.

import (
	"fmt"
	"go/token"
	"go/types"
	"strings"
)

type assignItem struct {
	src   string
	comps map[string]string // component name -> component sort
	leaf  map[string]string // component name -> sort of the value stored per reference
	ref   Term
	onResult bool
	lo, hi *Term // absolute element index range [lo,hi) for x[a:b] items (nil = whole array)
}

func mentionsResult(e *SExpr) bool {
	if e == nil {
		return false
	}
	if e.Op == "id" && (e.Name == "result" || strings.HasPrefix(e.Name, "result") || e.Name == "err") {
		return true
	}
	for _, a := range e.Args {
		if mentionsResult(a) {
			return true
		}
	}
	return false
}

// evalAssignItem evaluates an assigns item in scope sc.
func (sc *Scope) evalAssignItem(cl *Clause) (*assignItem, error) {
	e := cl.E
	it := &assignItem{src: cl.Src, comps: map[string]string{}, leaf: map[string]string{}}
	addLV := func(lv *LV) {
		for _, l := range leavesOf(lv.T) {
			n, s := compFor(lv, l)
			it.comps[n] = s
			_, es := arrParts(s)
			it.leaf[n] = es
		}
		it.ref = lv.Ref
	}
	switch e.Op {
	case "elems":
		x := sc.eval(e.Args[0])
		if sc.err != nil {
			return nil, sc.err
		}
		v := x.v
		if v == nil || !isSlice(v.T) {
			return nil, fmt.Errorf("assigns %s: not a slice", cl.Src)
		}
		bk := v.backing()
		root := &LV{Root: bk.Root, Ref: bk.Ref, Steps: nil, T: types.NewArray(sliceElem(v.T), 1)}
		if len(bk.Steps) > 0 {
			// slice of an array stored inside another object: the whole containing leaf may change
			root = &LV{Root: bk.Root, Ref: bk.Ref, Steps: bk.Steps, T: bk.T}
		}
		addLV(root)
	case "slice":
		x := sc.eval(e.Args[0])
		if sc.err != nil {
			return nil, sc.err
		}
		v := x.v
		if v == nil || !isSlice(v.T) {
			return nil, fmt.Errorf("assigns %s: not a slice", cl.Src)
		}
		bk := v.backing()
		if len(bk.Steps) > 0 {
			return nil, fmt.Errorf("assigns %s: range items on nested arrays are not supported", cl.Src)
		}
		addLV(&LV{Root: bk.Root, Ref: bk.Ref, T: types.NewArray(sliceElem(v.T), 1)})
		lo := v.sOff()
		if e.Args[1] != nil {
			lo = app(SIdx, "bvadd", v.sOff(), sc.toIdx(sc.eval(e.Args[1])))
		}
		hi := app(SIdx, "bvadd", v.sOff(), v.sLen())
		if e.Args[2] != nil {
			hi = app(SIdx, "bvadd", v.sOff(), sc.toIdx(sc.eval(e.Args[2])))
		}
		if sc.err != nil {
			return nil, sc.err
		}
		it.lo, it.hi = &lo, &hi
	case "fields":
		x := sc.eval(e.Args[0])
		if sc.err != nil {
			return nil, sc.err
		}
		if x.v == nil || !isPointer(x.v.T) {
			return nil, fmt.Errorf("assigns %s: not a pointer", cl.Src)
		}
		addLV(x.v.loc())
	case "sel":
		x := sc.eval(e.Args[0])
		if sc.err != nil {
			return nil, sc.err
		}
		if x.v == nil || !isPointer(x.v.T) {
			return nil, fmt.Errorf("assigns %s: base is not a pointer", cl.Src)
		}
		lv := x.v.loc()
		st, ok := lv.T.Underlying().(*types.Struct)
		if !ok {
			return nil, fmt.Errorf("assigns %s: base is not a struct pointer", cl.Src)
		}
		i := fieldIndex(st, e.Name)
		if i < 0 {
			return nil, fmt.Errorf("assigns %s: no such field", cl.Src)
		}
		addLV(lv.extend(Step{Field: e.Name}, st.Field(i).Type()))
	default:
		return nil, fmt.Errorf("assigns %s: unsupported location form", cl.Src)
	}
	it.onResult = mentionsResult(e)
	return it, nil
}

// frameCheck: a write to components `comps` at reference ref must be permitted by the assigns clause
// of the function being verified (or target memory allocated during this call).
func (fr *frame) frameCheck(comps []string, ref Term, what string, pos token.Pos) {
	fr.frameCheckRange(comps, ref, nil, nil, what, pos)
}

// frameCheckRange: as frameCheck, for a write to absolute element indices [lo,hi) (nil = unknown/whole array).
func (fr *frame) frameCheckRange(comps []string, ref Term, lo, hi *Term, what string, pos token.Pos) {
	ft := fr.ft
	if ft.topCon == nil || !ft.topCon.HasAssigns || ft.fn == nil {
		return
	}
	fresh := app(SBool, ">", ref, intConst(allocBase))
	var goals []Term
	for _, c := range comps {
		alts := []Term{fresh}
		for _, it := range ft.assignItems {
			if _, ok := it.comps[c]; ok {
				m := mkEq(ref, it.ref)
				if it.lo != nil {
					if lo == nil {
						continue // write of unknown extent cannot be justified by a range item
					}
					m = mkAnd(m, mkOr(mkEq(*lo, *hi), mkAnd(app(SBool, "bvule", *it.lo, *lo), app(SBool, "bvule", *hi, *it.hi), app(SBool, "bvule", *lo, *hi))))
				}
				alts = append(alts, m)
			}
		}
		goals = append(goals, mkOr(alts...))
	}
	g := mkAnd(goals...)
	if g.T == "true" {
		return
	}
	fr.oblige("frame", what, pos, g)
}

// applyAssigns havocs exactly the listed locations (call site of a callee with an assigns clause).
func (fr *frame) applyAssigns(items []*assignItem) {
	ft := fr.ft
	for _, it := range items {
		for c, s := range it.comps {
			arr := ft.memGet(fr.cur.mem, c, s)
			nv := ft.c.Fresh("asg$"+c, it.leaf[c])
			if it.lo != nil && isArr(it.leaf[c]) {
				// only [lo,hi) may change
				old := mkSelect(arr, it.ref)
				j := ft.c.BoundVar("j")
				jt := Term{SIdx, j}
				ft.c.Assume(nv, ft.c.Quant(false, j, SIdx, mkImp(mkOr(app(SBool, "bvslt", jt, *it.lo), app(SBool, "bvsge", jt, *it.hi)),
					mkEq(mkSelect(nv, jt), mkSelect(old, jt)))))
			}
			fr.cur.mem.m[c] = ft.c.Define("m$"+c, mkStore(arr, it.ref, nv))
			fr.checkLoopMod(c)
		}
	}
}
