#!/bin/bash
# Shows that the triage demonstrations reproduce on the commit before the repairs (ac2173d): every test passes there
# (logging REPRODUCED); on the repaired tree the same tests fail with "no panic" (see overlay.sh).
export PATH=/opt/veriftools/go1.26.8/bin:$PATH GOFLAGS=-mod=mod GOPROXY=off GOTOOLCHAIN=local
W=$(mktemp -d /tmp/prefix-XXXX); rmdir $W
git -C /repo worktree add --detach -q $W ac2173d || exit 2
cp /verif/findings/C07/zz_triage_core_replay_test.go $W/internal/core/
cp /verif/findings/C07/zz_triage_structures_replay_test.go $W/internal/structures/
cp /verif/findings/C07/zz_triage_hdf5_replay_test.go $W/
(cd $W && ulimit -v 6000000 && go test -vet=off -count=1 -timeout 300s -run 'TestTriage' -v ./internal/core ./internal/structures . 2>&1) | grep -E "^(--- |ok|FAIL)" | awk '{print $1,$2}' | sort | uniq -c
git -C /repo worktree remove --force $W
