package core

import (
	"bytes"
	"encoding/binary"
	"os"
	"os/exec"
	"runtime/debug"
	"strings"
	"testing"
)

func t3SB() *Superblock {
	return &Superblock{Version: 2, OffsetSize: 8, LengthSize: 8, Endianness: binary.LittleEndian}
}

// t3ExpectPanic runs f; the test passes iff f panics.
func t3ExpectPanic(t *testing.T, what string, f func()) {
	t.Helper()
	defer func() {
		if r := recover(); r != nil {
			t.Logf("REPRODUCED: %s: %v", what, r)
			return
		}
		t.Fatalf("no panic: %s", what)
	}()
	f()
}

func t3TreeHeader(level uint8, entries uint16) []byte {
	h := make([]byte, 24)
	copy(h, "TREE")
	h[4] = 1
	h[5] = level
	binary.LittleEndian.PutUint16(h[6:], entries)
	return h
}

// t3ChunkFile: a chunk B-tree node of the given level at address 0 with one entry whose key has the given byte
// offsets (one per chunk dimension) and whose child pointer is childAddr; `chunk` is stored at address 4096.
func t3ChunkFile(level uint8, byteOffsets []uint64, childAddr uint64, chunk []byte) []byte {
	f := t3TreeHeader(level, 1)
	key := make([]byte, 8+8*len(byteOffsets))
	binary.LittleEndian.PutUint32(key[0:], uint32(len(chunk)))
	for i, o := range byteOffsets {
		binary.LittleEndian.PutUint64(key[8+8*i:], o)
	}
	f = append(f, key...)
	child := make([]byte, 8)
	binary.LittleEndian.PutUint64(child, childAddr)
	f = append(f, child...)
	f = append(f, make([]byte, len(key))...) // final key
	f = append(f, make([]byte, 4096-len(f))...)
	return append(f, chunk...)
}

// ---- copyNDChunkRecursive: source offset wraps ----------------------------------------------------------------

// Layout message with chunk dimensions [2, 2^31-1, 2^31+1] (+ element size 4; all fit the 32-bit fields of a
// version 3 layout message), dataspace [2,1,1], 4-byte elements. The chunk stride of dimension 0 is
// (2^31-1)*(2^31+1) = 2^62-1, so for index (1,0,0) chunkOffset = (2^62-1)*4 = 2^64-4 and
// chunkOffset+numBytes wraps to 0: the "chunk data truncated" check passes and chunkData[2^64-4 : 0] panics.
// (The first pass repaired the wrap of the DESTINATION offset only.)
func TestTriage3_copyNDChunkRecursive_1(t *testing.T) {
	file := t3ChunkFile(0, []uint64{0, 0, 0, 0}, 4096, make([]byte, 8))
	layout := &DataLayoutMessage{Version: 3, Class: LayoutChunked, DataAddress: 0,
		ChunkSize: []uint64{2, 1<<31 - 1, 1<<31 + 1, 4}}
	ds := &DataspaceMessage{Version: 1, Type: DataspaceSimple, Dimensions: []uint64{2, 1, 1}}
	dt := &DatatypeMessage{Class: DatatypeFixed, Size: 4}
	t3ExpectPanic(t, "readChunkedData/copyNDChunkRecursive: chunk stride 2^62-1 wraps the source offset check", func() {
		_, err := readChunkedData(bytes.NewReader(file), layout, ds, dt, t3SB(), nil)
		t.Logf("returned err=%v", err)
	})
}

// ---- CollectAllChunks: unbounded recursion on a self-referencing node ---------------------------------------------

// t3CountingReader panics (recoverably) once more than `limit` reads were served, so that the recursion depth can be
// observed in-process; the real outcome (fatal "stack overflow", not recoverable) is shown in a child process.
type t3CountingReader struct {
	r     *bytes.Reader
	n     *int
	limit int
}

func (c t3CountingReader) ReadAt(p []byte, off int64) (int, error) {
	*c.n++
	if c.limit > 0 && *c.n > c.limit {
		panic("t3: read limit reached")
	}
	return c.r.ReadAt(p, off)
}

// A 64-byte "file": one B-tree node at address 0 with level 1 and one entry whose child pointer is 0 (the node
// itself). CollectAllChunks has neither a depth bound, nor a visited set, nor a check that the child's level is lower:
// it recurses until the goroutine stack is exhausted, which kills the process (fatal error: stack overflow).
func TestTriage3_CollectAllChunks_1(t *testing.T) {
	file := t3ChunkFile(1, []uint64{0}, 0, nil)[:64]
	layout := &DataLayoutMessage{Version: 3, Class: LayoutChunked, DataAddress: 0, ChunkSize: []uint64{4}}
	ds := &DataspaceMessage{Version: 1, Type: DataspaceSimple, Dimensions: []uint64{4}}
	dt := &DatatypeMessage{Class: DatatypeFixed, Size: 1}

	if os.Getenv("TRIAGE3_CHILD") == "CollectAllChunks" {
		debug.SetMaxStack(64 << 20) // fail fast; the default 1 GB limit is reached the same way, only later
		_, err := readChunkedData(bytes.NewReader(file), layout, ds, dt, t3SB(), nil)
		t.Logf("child returned err=%v", err)
		os.Exit(0)
	}

	// In-process: every recursion level performs exactly two reads (node header, node data).
	n := 0
	func() {
		defer func() {
			r := recover()
			if r == nil || n < 200000 {
				t.Fatalf("recursion ended by itself after %d reads (recover=%v)", n, r)
			}
			t.Logf("REPRODUCED: CollectAllChunks recursion depth reached %d on a 64-byte self-referencing node (stopped by the test reader)", n/2)
		}()
		_, err := readChunkedData(t3CountingReader{bytes.NewReader(file), &n, 200000}, layout, ds, dt, t3SB(), nil)
		t.Logf("returned err=%v", err)
	}()

	// Child process: the real crash.
	cmd := exec.Command(os.Args[0], "-test.run=^TestTriage3_CollectAllChunks_1$", "-test.v")
	cmd.Env = append(os.Environ(), "TRIAGE3_CHILD=CollectAllChunks")
	out, err := cmd.CombinedOutput()
	if err == nil || !strings.Contains(string(out), "stack overflow") {
		t.Fatalf("child did not die of stack overflow: err=%v out=%.400s", err, out)
	}
	t.Logf("REPRODUCED: child process died: %v; %s", err, t3FirstLineWith(string(out), "stack"))
}

func t3FirstLineWith(s, sub string) string {
	for _, l := range strings.Split(s, "\n") {
		if strings.Contains(l, sub) {
			return l
		}
	}
	return ""
}

// ---- copyNDChunkRecursive: destination offset wraps when the dataspace element count has wrapped -----------------

// Dataspace [2^63+1, 2]: DataspaceMessage.TotalElements multiplies without overflow check and yields 2, so every size
// limit is passed and a 2-byte buffer is allocated. Chunk dimensions [1,2], chunk key coordinate (2^63-1, 0) lies
// inside the declared dataset, so the coordinate check added in the first pass accepts it; the destination offset
// (2^63-1)*2 = 2^64-2 plus numBytes 2 wraps to 0, the bounds check passes and fullData[2^64-2 : 0] panics.
func TestTriage3_copyNDChunkRecursive_2(t *testing.T) {
	file := t3ChunkFile(0, []uint64{1<<63 - 1, 0, 0}, 4096, make([]byte, 2))
	layout := &DataLayoutMessage{Version: 3, Class: LayoutChunked, DataAddress: 0, ChunkSize: []uint64{1, 2, 1}}
	ds := &DataspaceMessage{Version: 1, Type: DataspaceSimple, Dimensions: []uint64{1<<63 + 1, 2}}
	dt := &DatatypeMessage{Class: DatatypeFixed, Size: 1}
	if ds.TotalElements() != 2 {
		t.Fatalf("TotalElements = %d", ds.TotalElements())
	}
	t3ExpectPanic(t, "readChunkedData/copyNDChunkRecursive: wrapped element count, destination offset 2^64-2", func() {
		_, err := readChunkedData(bytes.NewReader(file), layout, ds, dt, t3SB(), nil)
		t.Logf("returned err=%v", err)
	})
}

// ---- FindChunk (no caller in the module; found while writing the contract) ------------------------------------------

// Coordinates beyond the last key: childIndex becomes EntriesUsed, but Children has only EntriesUsed elements.
func TestTriage3_FindChunk_1(t *testing.T) {
	node := &BTreeV1Node{NodeLevel: 0, EntriesUsed: 1, Keys: []ChunkKey{{Scaled: []uint64{0}}, {Scaled: []uint64{0}}}, Children: []uint64{4096}}
	t3ExpectPanic(t, "FindChunk indexes Children[EntriesUsed]", func() {
		_, err := node.FindChunk(bytes.NewReader(nil), []uint64{5}, 8, []uint64{4})
		t.Logf("returned err=%v", err)
	})
}
