package structures

// Findings for check C17 ("fail-stop on truncated files / failing reads"), package structures.
// The test FAILS on the current code with a message starting "FINDING:".

import (
	"bytes"
	"os"
	"testing"

	"github.com/scigolib/hdf5/internal/core"
)

// Site: structures.ReadGroupBTreeEntries#failstop#ParseSymbolTableNode(r, snodAddr, sb)
// (error ignored, loop continues).
//
// testdata/v0.h5: the root group's B-tree node ("TREE") is at 136 and has one child, the
// symbol table node at 1072..1120, which holds the single link "test".
// Intact answer: one entry (ObjectAddress 800).
// With the image cut to 1000 bytes (SNOD beyond EOF) or 1119 bytes (last byte of the SNOD's
// entry missing) ParseSymbolTableNode returns a read error, the loop skips the node and the
// function returns an empty entry list with a nil error.
// (End-to-end demonstration: hdf5.TestFindingC17_SymbolTableNodeSilentlyDropped.)
func TestFindingC17_ReadGroupBTreeEntriesSkipsUnreadableSNOD(t *testing.T) {
	data, err := os.ReadFile("../../testdata/v0.h5")
	if err != nil {
		t.Fatal(err)
	}
	sb, err := core.ReadSuperblock(bytes.NewReader(data))
	if err != nil {
		t.Fatal(err)
	}
	want, err := ReadGroupBTreeEntries(bytes.NewReader(data), sb.RootBTreeAddr, sb)
	if err != nil || len(want) != 1 {
		t.Fatalf("intact: %d entries, err=%v", len(want), err)
	}
	for _, cut := range []int{1000, 1119} {
		got, err := ReadGroupBTreeEntries(bytes.NewReader(data[:cut]), sb.RootBTreeAddr, sb)
		if err != nil {
			continue
		}
		if len(got) != len(want) {
			t.Errorf("FINDING: image cut to %d bytes: ReadGroupBTreeEntries returned %d entries with nil error; intact file gives %d (link to object at %d)",
				cut, len(got), len(want), want[0].ObjectAddress)
		}
	}
}
