#!/bin/bash
d=$(mktemp -d); trap "rm -rf $d" EXIT
echo "{\"Replace\":{\"/repo/zz_resize_replay_test.go\":\"/verif/findings/C13/zz_resize_replay_test.go\"}}" > $d/ov.json
cd /repo && go test -overlay $d/ov.json -vet=off -count=1 -run 'TestReplayResize' -v . 2>&1 | tail -12
