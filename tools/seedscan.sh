#!/bin/bash
# usage: tools/seedscan.sh [seed-id ...]
# Runs the registered check of each seeded change's property against a scratch worktree of /repo's HEAD with the
# change applied (outside /repo and /verif, removed afterwards), and prints which seeds are caught.
# /repo itself and /verif's evidence are not touched, so it can run while other work goes on.
cd /verif
W=/tmp/seedscan-$$
trap 'git -C /repo worktree remove --force $W/repo 2>/dev/null; rm -rf $W' EXIT
mkdir -p $W/verif
git -C /repo worktree add --detach -q $W/repo HEAD || exit 2
cp -r scopes known_findings.json unclaimed.json properties.jsonl $W/verif/
ids="$@"; [ -z "$ids" ] && ids=$(ls seeded)
for id in $ids; do
  prop=$(python3 -c "import json;print(json.load(open('seeded/$id/meta.json'))['property'])" 2>/dev/null || echo ${id%%-*})
  [ -f scopes/$prop.json ] || { echo "$id: no scope for $prop"; continue; }
  git -C $W/repo apply /verif/seeded/$id/patch.diff || { echo "$id: patch does not apply"; continue; }
  out=$(bin/govc check --repo $W/repo --verif $W/verif --property $prop 2>&1)
  rc=$?
  n=$(echo "$out" | grep -c '^VIOLATION')
  echo "$id ($prop): rc=$rc violations=$n $(echo "$out" | grep '^VIOLATION' | head -2 | sed 's/.*obligation=//' | tr '\n' ';')"
  git -C $W/repo apply -R /verif/seeded/$id/patch.diff
done
