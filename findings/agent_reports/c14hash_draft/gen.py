import sys
W="(_ BitVec 32)"
def rot(k,x): return "((_ rotate_left %d) %s)"%(k,x)
mixlets=[("a1","(bvxor (bvsub a c) %s)"%rot(4,"c"),"c1","(bvadd c b)"),
         ("b2","(bvxor (bvsub b a1) %s)"%rot(6,"a1"),"a2","(bvadd a1 c1)"),
         ("c3","(bvxor (bvsub c1 b2) %s)"%rot(8,"b2"),"b3","(bvadd b2 a2)"),
         ("a4","(bvxor (bvsub a2 c3) %s)"%rot(16,"c3"),"c4","(bvadd c3 b3)"),
         ("b5","(bvxor (bvsub b3 a4) %s)"%rot(19,"a4"),"a5","(bvadd a4 c4)"),
         ("c6","(bvxor (bvsub c4 b5) %s)"%rot(4,"b5"),"b6","(bvadd b5 a5)")]
def mix(res):
    return "".join("(let ((%s %s) (%s %s)) "%l for l in mixlets)+res+")"*len(mixlets)
params="((a %s) (b %s) (c %s))"%(W,W,W)
smt=[]
for nm,res in (("lk_mix_a","a5"),("lk_mix_b","b6"),("lk_mix_c","c6")):
    smt.append("//@ smt (define-fun %s %s %s %s)"%(nm,params,W,mix(res)))
finlets=[("c1","(bvsub (bvxor c b) %s)"%rot(14,"b")),
         ("a1","(bvsub (bvxor a c1) %s)"%rot(11,"c1")),
         ("b1","(bvsub (bvxor b a1) %s)"%rot(25,"a1")),
         ("c2","(bvsub (bvxor c1 b1) %s)"%rot(16,"b1")),
         ("a2","(bvsub (bvxor a1 c2) %s)"%rot(4,"c2")),
         ("b2","(bvsub (bvxor b1 a2) %s)"%rot(14,"a2"))]
fin="".join("(let ((%s %s)) "%l for l in finlets)+"(bvsub (bvxor c2 b2) %s)"%rot(24,"b2")+")"*len(finlets)
smt.append("//@ smt (define-fun lk_final_c %s %s %s)"%(params,W,fin))
lens=[int(x) for x in sys.argv[1].split(",")] if len(sys.argv)>1 else list(range(49))
ens="\n".join("//@   ensures len(name) == %d ==> result == lookup3upto48(name)"%L for L in lens)
head=open('/tmp/w-c14/head.txt').read()
open('/tmp/w-c14/repo/internal/structures/zz_contracts_hash_verif.go','w').write(head.replace("SMTDEFS","\n\n".join(smt)).replace("ENS",ens))
