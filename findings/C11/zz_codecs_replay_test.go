package core

import (
	"bytes"
	"encoding/binary"
	"strings"
	"testing"
)

// Replays of the genuine findings of the codecs round-trip verification. Every test PASSES while the defect is
// present (and logs "REPRODUCED: ...") and fails with t.Fatalf once the defective behaviour is no longer observed.

func replayPanics(f func()) (msg interface{}) {
	defer func() { msg = recover() }()
	f()
	return nil
}

// (ii.1) encodeDatatypeVLen writes class in the high nibble and version in the low nibble of byte 0.
func TestReplayVLenDatatypeNibbles(t *testing.T) {
	dt := &DatatypeMessage{Class: DatatypeVarLen, Version: 0, Size: 16, ClassBitField: 0x101,
		Properties: []byte{0x13, 0, 0, 0, 1, 0, 0, 0, 0}}
	data, err := EncodeDatatypeMessage(dt)
	if err != nil {
		t.Fatalf("encode: %v", err)
	}
	back, err := ParseDatatypeMessage(data)
	if err != nil {
		t.Fatalf("parse: %v", err)
	}
	if back.Class == dt.Class && back.Version == dt.Version && back.ClassBitField == dt.ClassBitField {
		t.Fatalf("NOT reproduced: vlen datatype round-trips (class=%d version=%d cbf=%#x)", back.Class, back.Version, back.ClassBitField)
	}
	if data[0] != 0x90 || back.Class != DatatypeFixed || back.Version != 9 || back.ClassBitField != 0 || len(back.Properties) != 4 {
		t.Fatalf("different behaviour than recorded: byte0=%#x back=%+v", data[0], *back)
	}
	t.Logf("REPRODUCED: vlen datatype {Class 9, Version 0, CBF 0x101} encoded with byte0=%#x, decoded as Class=%d Version=%d CBF=%d len(Properties)=%d",
		data[0], back.Class, back.Version, back.ClassBitField, len(back.Properties))
}

// (ii.2) the encoder ignores dt.Version / dt.Properties (numeric, string) and overwrites ClassBitField / pads the tag (opaque).
func TestReplayDatatypeVersionPropsNotPreserved(t *testing.T) {
	cases := []struct {
		name string
		dt   *DatatypeMessage
	}{
		{"numeric", &DatatypeMessage{Class: DatatypeFixed, Version: 0, Size: 4, ClassBitField: 0x08}},
		{"string", &DatatypeMessage{Class: DatatypeString, Version: 0, Size: 5}},
		{"opaque", &DatatypeMessage{Class: DatatypeOpaque, Version: 1, Size: 3, Properties: []byte("abc")}},
	}
	for _, c := range cases {
		data, err := EncodeDatatypeMessage(c.dt)
		if err != nil {
			t.Fatalf("%s: encode: %v", c.name, err)
		}
		back, err := ParseDatatypeMessage(data)
		if err != nil {
			t.Fatalf("%s: parse: %v", c.name, err)
		}
		same := back.Class == c.dt.Class && back.Version == c.dt.Version && back.Size == c.dt.Size &&
			back.ClassBitField == c.dt.ClassBitField && bytes.Equal(back.Properties, c.dt.Properties)
		if same {
			t.Fatalf("NOT reproduced (%s): value round-trips: %+v", c.name, *back)
		}
		t.Logf("REPRODUCED (%s): in {Version %d CBF %d Properties %v} -> back {Version %d CBF %d Properties %v}",
			c.name, c.dt.Version, c.dt.ClassBitField, c.dt.Properties, back.Version, back.ClassBitField, back.Properties)
	}
}

// (ii.3) a scalar dataspace {Version 0, Type Scalar, Dimensions [1]} comes back as {Version 1, Type Simple}.
func TestReplayAttrDataspaceVersionType(t *testing.T) {
	dt := &DatatypeMessage{Class: DatatypeFixed, Size: 4, ClassBitField: 0x08}
	ds := &DataspaceMessage{Version: 0, Type: DataspaceScalar, Dimensions: []uint64{1}}
	msg, err := EncodeAttributeMessage("a", dt, ds, []byte{1, 2, 3, 4})
	if err != nil {
		t.Fatalf("encode: %v", err)
	}
	a, err := ParseAttributeMessage(msg, binary.LittleEndian)
	if err != nil {
		t.Fatalf("parse: %v", err)
	}
	if a.Dataspace.Version == ds.Version && a.Dataspace.Type == ds.Type {
		t.Fatalf("NOT reproduced: dataspace version/type preserved")
	}
	t.Logf("REPRODUCED: dataspace in {Version %d Type %d} -> back {Version %d Type %d}", ds.Version, ds.Type, a.Dataspace.Version, a.Dataspace.Type)
}

// (ii.4) size fields are always written little-endian but read with the caller's byte order.
func TestReplayAttributeBigEndian(t *testing.T) {
	dt := &DatatypeMessage{Class: DatatypeFixed, Size: 4, ClassBitField: 0x08}
	ds := &DataspaceMessage{Dimensions: []uint64{1}}
	msg, err := EncodeAttributeMessage("a", dt, ds, []byte{1, 2, 3, 4})
	if err != nil {
		t.Fatalf("encode: %v", err)
	}
	a, err := ParseAttributeMessage(msg, binary.BigEndian)
	if err == nil && a.Name == "a" && bytes.Equal(a.Data, []byte{1, 2, 3, 4}) {
		t.Fatalf("NOT reproduced: attribute round-trips with big-endian byte order")
	}
	if err != nil {
		t.Logf("REPRODUCED: big-endian decode of the encoded attribute fails: %v", err)
	} else {
		t.Logf("REPRODUCED: big-endian decode yields name of %d bytes, %d data bytes", len(a.Name), len(a.Data))
	}
}

// FIXED: parseLayoutV3 computed 4+size in uint16 and panicked ([4:2]) on a compact message with size 0xFFFE.
func TestReplayCompactLayoutSizeWrapFixed(t *testing.T) {
	d := make([]byte, 70000)
	d[0], d[1], d[2], d[3] = 3, byte(LayoutCompact), 0xFE, 0xFF
	var err error
	var m *DataLayoutMessage
	p := replayPanics(func() { m, err = ParseDataLayoutMessage(d, &Superblock{OffsetSize: 8, LengthSize: 8, Endianness: binary.LittleEndian}) })
	if p != nil {
		t.Fatalf("regression: compact layout with size 0xFFFE panics: %v", p)
	}
	if err != nil || len(m.CompactData) != 0xFFFE {
		t.Fatalf("unexpected result: err=%v", err)
	}
}

// FIXED: EncodeAttributeMessage truncated the 16-bit name size (65535-byte name: panic; 65536-byte name: corrupt message).
func TestReplayLongAttributeNameFixed(t *testing.T) {
	dt := &DatatypeMessage{Class: DatatypeFixed, Size: 4, ClassBitField: 0x08}
	ds := &DataspaceMessage{Dimensions: []uint64{1}}
	for _, n := range []int{65535, 65536} {
		var err error
		p := replayPanics(func() { _, err = EncodeAttributeMessage(strings.Repeat("a", n), dt, ds, make([]byte, 70000)) })
		if p != nil || err == nil {
			t.Fatalf("regression: %d-byte name: panic=%v err=%v", n, p, err)
		}
	}
}

// FIXED: EncodeDataspaceMessage truncated the rank to uint8; rank 256 panicked instead of returning an error.
func TestReplayDataspaceRank256Fixed(t *testing.T) {
	var err error
	p := replayPanics(func() { _, err = EncodeDataspaceMessage(make([]uint64, 256), nil) })
	if p != nil || err == nil {
		t.Fatalf("regression: rank 256: panic=%v err=%v", p, err)
	}
}
