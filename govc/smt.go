package main

// SMT term layer: terms are strings tagged with their sort; every named constant is
// registered in a Ctx so that queries can be sliced to the cone of influence.

import (
	"fmt"
	"math/big"
	"sort"
	"strings"
)

const (
	SBool = "Bool"
	SInt  = "Int" // references / type tags / mathematical integers in spec
	SIdx  = "(_ BitVec 64)"
	SF32  = "(_ FloatingPoint 8 24)"
	SF64  = "(_ FloatingPoint 11 53)"
)

func SBV(w int) string { return fmt.Sprintf("(_ BitVec %d)", w) }
func SArr(i, e string) string {
	return "(Array " + i + " " + e + ")"
}

type Term struct {
	S string // sort
	T string // SMT-LIB text
}

func (t Term) String() string { return t.T }

func bvWidth(s string) int {
	var w int
	if _, err := fmt.Sscanf(s, "(_ BitVec %d)", &w); err == nil {
		return w
	}
	return 0
}
func isBV(s string) bool  { return strings.HasPrefix(s, "(_ BitVec ") }
func isFP(s string) bool  { return strings.HasPrefix(s, "(_ FloatingPoint ") }
func isArr(s string) bool { return strings.HasPrefix(s, "(Array ") }

// arrParts splits "(Array I E)" into I and E.
func arrParts(s string) (string, string) {
	if !isArr(s) {
		panic("arrParts: not an array sort: " + s)
	}
	body := s[len("(Array ") : len(s)-1]
	// first sort token
	depth := 0
	for i, c := range body {
		switch c {
		case '(':
			depth++
		case ')':
			depth--
		case ' ':
			if depth == 0 {
				return body[:i], body[i+1:]
			}
		}
	}
	panic("arrParts: malformed " + s)
}

func app(sortOut string, op string, args ...Term) Term {
	var sb strings.Builder
	sb.WriteByte('(')
	sb.WriteString(op)
	for _, a := range args {
		sb.WriteByte(' ')
		sb.WriteString(a.T)
	}
	sb.WriteByte(')')
	return Term{sortOut, sb.String()}
}

var (
	tTrue  = Term{SBool, "true"}
	tFalse = Term{SBool, "false"}
)

func mkBool(b bool) Term {
	if b {
		return tTrue
	}
	return tFalse
}

func mkAnd(ts ...Term) Term {
	var xs []Term
	for _, t := range ts {
		if t.T == "true" {
			continue
		}
		if t.T == "false" {
			return tFalse
		}
		xs = append(xs, t)
	}
	if len(xs) == 0 {
		return tTrue
	}
	if len(xs) == 1 {
		return xs[0]
	}
	return app(SBool, "and", xs...)
}
func mkOr(ts ...Term) Term {
	var xs []Term
	for _, t := range ts {
		if t.T == "false" {
			continue
		}
		if t.T == "true" {
			return tTrue
		}
		xs = append(xs, t)
	}
	if len(xs) == 0 {
		return tFalse
	}
	if len(xs) == 1 {
		return xs[0]
	}
	return app(SBool, "or", xs...)
}
func mkNot(t Term) Term {
	if t.T == "true" {
		return tFalse
	}
	if t.T == "false" {
		return tTrue
	}
	if strings.HasPrefix(t.T, "(not ") {
		return Term{SBool, t.T[5 : len(t.T)-1]}
	}
	return app(SBool, "not", t)
}
func mkImp(a, b Term) Term {
	if a.T == "true" {
		return b
	}
	if a.T == "false" || b.T == "true" {
		return tTrue
	}
	return app(SBool, "=>", a, b)
}
func mkEq(a, b Term) Term {
	if a.S != b.S {
		panic(fmt.Sprintf("mkEq: sort mismatch %s (%s) vs %s (%s)", a.S, a.T, b.S, b.T))
	}
	if a.T == b.T {
		return tTrue
	}
	if isFP(a.S) {
		// structural equality on FP values (NaN = NaN) — used for definitions only.
		return app(SBool, "=", a, b)
	}
	return app(SBool, "=", a, b)
}
func mkIte(c, a, b Term) Term {
	if a.S != b.S {
		panic(fmt.Sprintf("mkIte: sort mismatch %s vs %s (%s | %s)", a.S, b.S, a.T, b.T))
	}
	if c.T == "true" {
		return a
	}
	if c.T == "false" {
		return b
	}
	if a.T == b.T {
		return a
	}
	return app(a.S, "ite", c, a, b)
}

func bvConst(w int, v *big.Int) Term {
	m := new(big.Int).Lsh(big.NewInt(1), uint(w))
	x := new(big.Int).Mod(v, m)
	if x.Sign() < 0 {
		x.Add(x, m)
	}
	return Term{SBV(w), fmt.Sprintf("(_ bv%s %d)", x.String(), w)}
}
func bvInt(w int, v int64) Term { return bvConst(w, big.NewInt(v)) }
func idxInt(v int64) Term       { return bvInt(64, v) }
func intConst(v int64) Term {
	if v < 0 {
		return Term{SInt, fmt.Sprintf("(- %d)", -v)}
	}
	return Term{SInt, fmt.Sprintf("%d", v)}
}

func mkSelect(a, i Term) Term {
	is, es := arrParts(a.S)
	if is != i.S {
		panic(fmt.Sprintf("mkSelect: index sort %s vs array %s", i.S, a.S))
	}
	return app(es, "select", a, i)
}
func mkStore(a, i, v Term) Term {
	is, es := arrParts(a.S)
	if is != i.S || es != v.S {
		panic(fmt.Sprintf("mkStore: sorts arr=%s idx=%s val=%s", a.S, i.S, v.S))
	}
	return app(a.S, "store", a, i, v)
}
func constArr(s string, v Term) Term {
	return Term{s, "((as const " + s + ") " + v.T + ")"}
}

// zeroOf returns the all-zero value of a sort.
func zeroOf(s string) Term {
	switch {
	case s == SBool:
		return tFalse
	case s == SInt:
		return intConst(0)
	case isBV(s):
		return bvInt(bvWidth(s), 0)
	case isFP(s):
		return Term{s, "(_ +zero " + s[len("(_ FloatingPoint "):len(s)-1] + ")"}
	case isArr(s):
		_, e := arrParts(s)
		return constArr(s, zeroOf(e))
	}
	panic("zeroOf: " + s)
}

// updateNested stores v at base[idx0][idx1]... .
func updateNested(base Term, idxs []Term, v Term) Term {
	if len(idxs) == 0 {
		return v
	}
	inner := mkSelect(base, idxs[0])
	return mkStore(base, idxs[0], updateNested(inner, idxs[1:], v))
}
func selectNested(base Term, idxs []Term) Term {
	for _, i := range idxs {
		base = mkSelect(base, i)
	}
	return base
}

// ---------------------------------------------------------------------------
// Ctx: declarations with definitions and attached assumptions.

type Decl struct {
	Name    string
	Sort    string
	Def     *Term  // name = Def (total definition), nil for havoc
	Assumes []Term // type invariants / axioms attached to this symbol
	Quant   *QuantInfo
	seq     int
}

// QuantInfo: a Boolean symbol standing for a top-level quantified formula.
type QuantInfo struct {
	Exists bool
	Var    string // unique bound variable name
	Sort   string
	Body   Term
}

type Ctx struct {
	decls    map[string]*Decl
	n        int
	Preamble []string // raw SMT-LIB (spec functions)
	PreNames map[string]bool
	InstTerms []Term        // ground terms used to instantiate quantifiers in instantiation mode
	instSeen  map[string]bool
}

// AddInst registers a ground instantiation term.
func (c *Ctx) AddInst(t Term) {
	if c.instSeen == nil {
		c.instSeen = map[string]bool{}
	}
	if c.instSeen[t.T] || len(c.InstTerms) > 400 {
		return
	}
	c.instSeen[t.T] = true
	c.InstTerms = append(c.InstTerms, t)
}

// Quant declares a Boolean symbol equivalent to (forall/exists ((v sort)) body).
func (c *Ctx) Quant(exists bool, v, sortS string, body Term) Term {
	c.n++
	name := fmt.Sprintf("Q!%d", c.n)
	c.decls[name] = &Decl{Name: name, Sort: SBool, Quant: &QuantInfo{Exists: exists, Var: v, Sort: sortS, Body: body}, seq: c.n}
	return Term{SBool, name}
}

// BoundVar returns a fresh unique bound-variable name.
func (c *Ctx) BoundVar(hint string) string {
	c.n++
	return fmt.Sprintf("%s!q%d", sanitize(hint), c.n)
}

func substToken(s, from, to string) string {
	var sb strings.Builder
	start := -1
	flush := func(end int) {
		if start >= 0 {
			tok := s[start:end]
			if tok == from {
				sb.WriteString(to)
			} else {
				sb.WriteString(tok)
			}
			start = -1
		}
	}
	for i := 0; i < len(s); i++ {
		ch := s[i]
		if ch == '(' || ch == ')' || ch == ' ' || ch == '\n' || ch == '\t' {
			flush(i)
			sb.WriteByte(ch)
		} else if start < 0 {
			start = i
		}
	}
	flush(len(s))
	return sb.String()
}

func NewCtx() *Ctx { return &Ctx{decls: map[string]*Decl{}, PreNames: map[string]bool{}} }

func sanitize(s string) string {
	var sb strings.Builder
	for _, c := range s {
		switch {
		case c >= 'a' && c <= 'z', c >= 'A' && c <= 'Z', c >= '0' && c <= '9', c == '_', c == '.', c == '$', c == '!':
			sb.WriteRune(c)
		case c == '#':
			sb.WriteByte('.')
		default:
			sb.WriteByte('_')
		}
	}
	return sb.String()
}

// Fresh declares an unconstrained constant.
func (c *Ctx) Fresh(hint, sortS string) Term {
	c.n++
	name := fmt.Sprintf("%s!%d", sanitize(hint), c.n)
	c.decls[name] = &Decl{Name: name, Sort: sortS, seq: c.n}
	return Term{sortS, name}
}

// Define declares name = t and returns the name (keeps terms small and shared).
func (c *Ctx) Define(hint string, t Term) Term {
	// do not name trivial terms
	if len(t.T) < 24 && !strings.ContainsAny(t.T, " ") {
		return t
	}
	c.n++
	name := fmt.Sprintf("%s!%d", sanitize(hint), c.n)
	tt := t
	c.decls[name] = &Decl{Name: name, Sort: t.S, Def: &tt, seq: c.n}
	return Term{t.S, name}
}

// Assume attaches an assumption to a declared symbol (included whenever the symbol is).
func (c *Ctx) Assume(sym Term, a Term) {
	d := c.decls[sym.T]
	if d == nil {
		panic("Assume on non-symbol " + sym.T)
	}
	d.Assumes = append(d.Assumes, a)
}

func tokens(s string, f func(string)) {
	start := -1
	for i := 0; i < len(s); i++ {
		c := s[i]
		if c == '(' || c == ')' || c == ' ' || c == '\n' || c == '\t' {
			if start >= 0 {
				f(s[start:i])
				start = -1
			}
		} else if start < 0 {
			start = i
		}
	}
	if start >= 0 {
		f(s[start:])
	}
}

// Script builds a query: sliced declarations + assertions of `asserts`.
// inst=false: quantified symbols are defined by real quantifiers.
// inst=true: every quantified symbol Q is replaced by sound consequences of its definition:
//   forall: Q => body[t] for every instantiation term t, and !Q => !body[sk] for a fresh skolem sk
//   (dually for exists). An unsat answer is therefore still valid; a sat answer may be spurious.
func (c *Ctx) Script(logic string, asserts []Term, inst bool) (string, bool) {
	need := map[string]bool{}
	var stack []string
	visit := func(s string) {
		tokens(s, func(tok string) {
			if d, ok := c.decls[tok]; ok && !need[tok] {
				need[tok] = true
				stack = append(stack, d.Name)
			}
		})
	}
	for _, a := range asserts {
		visit(a.T)
	}
	var quants []*Decl
	var instAsserts []string
	drain := func() {
		for len(stack) > 0 {
			n := stack[len(stack)-1]
			stack = stack[:len(stack)-1]
			d := c.decls[n]
			if d.Def != nil {
				visit(d.Def.T)
			}
			for _, a := range d.Assumes {
				visit(a.T)
			}
			if d.Quant != nil {
				quants = append(quants, d)
				if !inst {
					visit(d.Quant.Body.T)
				}
			}
		}
	}
	drain()
	if inst && len(quants) > 0 {
		// iterate: instantiating bodies may pull in further quantified symbols
		done := map[string]bool{}
		for round := 0; round < 4; round++ {
			var pending []*Decl
			for _, q := range quants {
				if !done[q.Name] {
					pending = append(pending, q)
				}
			}
			if len(pending) == 0 {
				break
			}
			for _, q := range pending {
				done[q.Name] = true
				qi := q.Quant
				sk := q.Name + "!sk"
				var terms []string
				for _, t := range c.InstTerms {
					if t.S == qi.Sort {
						terms = append(terms, t.T)
					}
				}
				for _, q2 := range quants {
					if q2.Quant.Sort == qi.Sort {
						terms = append(terms, q2.Name+"!sk")
					}
				}
				pos, neg := q.Name, "(not "+q.Name+")"
				if qi.Exists {
					pos, neg = neg, pos
				}
				// pos => body[t] (forall) ; for exists: !Q => !body[t]
				for _, t := range terms {
					b := substToken(qi.Body.T, qi.Var, t)
					if qi.Exists {
						instAsserts = append(instAsserts, "(=> "+pos+" (not "+b+"))")
					} else {
						instAsserts = append(instAsserts, "(=> "+pos+" "+b+")")
					}
					visit(b)
				}
				bsk := substToken(qi.Body.T, qi.Var, sk)
				if qi.Exists {
					instAsserts = append(instAsserts, "(=> "+neg+" "+bsk+")")
				} else {
					instAsserts = append(instAsserts, "(=> "+neg+" (not "+bsk+"))")
				}
				visit(bsk)
			}
			drain()
		}
	}
	var ds []*Decl
	for n := range need {
		ds = append(ds, c.decls[n])
	}
	sort.Slice(ds, func(i, j int) bool { return ds[i].seq < ds[j].seq })
	var sb strings.Builder
	if logic != "" {
		sb.WriteString("(set-logic " + logic + ")\n")
	}
	for _, p := range c.Preamble {
		sb.WriteString(p)
		sb.WriteByte('\n')
	}
	// skolems first (they may be referenced by instantiated bodies of earlier symbols)
	if inst {
		for _, q := range quants {
			fmt.Fprintf(&sb, "(declare-const %s!sk %s)\n", q.Name, q.Quant.Sort)
		}
		// quantified symbols are plain Booleans, declared up front (bodies of other symbols may mention them)
		for _, q := range quants {
			fmt.Fprintf(&sb, "(declare-const %s Bool)\n", q.Name)
		}
	}
	for _, d := range ds {
		switch {
		case d.Quant != nil:
			if !inst {
				kw := "forall"
				if d.Quant.Exists {
					kw = "exists"
				}
				fmt.Fprintf(&sb, "(define-fun %s () Bool (%s ((%s %s)) %s))\n", d.Name, kw, d.Quant.Var, d.Quant.Sort, d.Quant.Body.T)
			}
		case d.Def != nil:
			fmt.Fprintf(&sb, "(define-fun %s () %s %s)\n", d.Name, d.Sort, d.Def.T)
		default:
			fmt.Fprintf(&sb, "(declare-const %s %s)\n", d.Name, d.Sort)
		}
	}
	for _, d := range ds {
		for _, a := range d.Assumes {
			fmt.Fprintf(&sb, "(assert %s)\n", a.T)
		}
	}
	for _, a := range instAsserts {
		fmt.Fprintf(&sb, "(assert %s)\n", a)
	}
	for _, a := range asserts {
		fmt.Fprintf(&sb, "(assert %s)\n", a.T)
	}
	sb.WriteString("(check-sat)\n")
	return sb.String(), len(quants) > 0
}

// HasQuant reports whether a script text uses quantifiers.
func hasQuant(s string) bool {
	return strings.Contains(s, "(forall ") || strings.Contains(s, "(exists ")
}

// addPre adds a raw preamble line once.
func (c *Ctx) addPre(key, line string) {
	if c.PreNames[key] {
		return
	}
	c.PreNames[key] = true
	c.Preamble = append(c.Preamble, line)
}
