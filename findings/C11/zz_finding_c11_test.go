package core

// Demonstrations for known findings of property C11 (inject with go test -overlay into internal/core).

import (
	"encoding/binary"
	"testing"
)

// core.attrInfoRoundTrip#lemma#isBE(sb.Endianness) ==> …: EncodeAttributeInfoMessage writes the three addresses with the
// superblock's byte order, ParseAttributeInfoMessage always reads them little-endian (readAddress).
func TestFindingC11_AttributeInfoBigEndianAddresses(t *testing.T) {
	for _, osz := range []uint8{2, 4, 8} {
		sb := &Superblock{OffsetSize: osz, LengthSize: 8, Endianness: binary.BigEndian}
		in := &AttributeInfoMessage{Version: 0, Flags: 0, FractalHeapAddr: 0x0102, BTreeNameIndexAddr: 0x0304}
		data, err := EncodeAttributeInfoMessage(in, sb)
		if err != nil {
			t.Fatal(err)
		}
		out, err := ParseAttributeInfoMessage(data, sb)
		if err != nil {
			t.Fatal(err)
		}
		if out.FractalHeapAddr != in.FractalHeapAddr || out.BTreeNameIndexAddr != in.BTreeNameIndexAddr {
			t.Errorf("FINDING: offset size %d, big-endian: encoded heap=%#x name=%#x, decoded heap=%#x name=%#x", osz,
				in.FractalHeapAddr, in.BTreeNameIndexAddr, out.FractalHeapAddr, out.BTreeNameIndexAddr)
		}
	}
}
