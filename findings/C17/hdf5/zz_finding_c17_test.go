package hdf5

// Findings for check C17 ("fail-stop on truncated files / failing reads"):
//
//	If a file is cut short at any length, or any individual read of the underlying
//	file fails, every API call either returns an error or returns exactly what it
//	would return on the intact file; it never returns different data, never silently
//	omits members or attributes, and never panics.
//
// Every test in this file FAILS on the current code with a message starting "FINDING:".
// Each test names the flagged site(s) it demonstrates and states the intact-file answer.

import (
	"bytes"
	"encoding/binary"
	"fmt"
	"os"
	"path/filepath"
	"reflect"
	"strings"
	"testing"

	"github.com/scigolib/hdf5/internal/core"
)

// ---- helpers -----------------------------------------------------------------------------------

func c17ReadFile(t *testing.T, path string) []byte {
	t.Helper()
	data, err := os.ReadFile(path)
	if err != nil {
		t.Fatalf("read %s: %v", path, err)
	}
	return data
}

func c17WriteTemp(t *testing.T, data []byte) string {
	t.Helper()
	p := filepath.Join(t.TempDir(), "c17.h5")
	if err := os.WriteFile(p, data, 0o600); err != nil {
		t.Fatalf("write temp: %v", err)
	}
	return p
}

// c17Walk returns "path|GoType" for every object reachable from the root.
func c17Walk(f *File) []string {
	var out []string
	f.Walk(func(p string, o Object) { out = append(out, fmt.Sprintf("%s|%T", p, o)) })
	return out
}

func c17FindGroup(f *File, path string) *Group {
	var g *Group
	f.Walk(func(p string, o Object) {
		if gg, ok := o.(*Group); ok && p == path {
			g = gg
		}
	})
	return g
}

func c17FindDataset(f *File, path string) *Dataset {
	var d *Dataset
	f.Walk(func(p string, o Object) {
		if dd, ok := o.(*Dataset); ok && p == path {
			d = dd
		}
	})
	return d
}

func c17AttrNames(attrs []*core.Attribute) []string {
	names := make([]string, 0, len(attrs))
	for _, a := range attrs {
		names = append(names, a.Name)
	}
	return names
}

// c17MakeDenseFile uses the library's own writer to create a file whose dataset /data has ten
// attributes attr0..attr9 in DENSE storage (fractal heap + B-tree v2). Attribute i holds
// arrayLen int32 values i*100+j. Layout produced by the writer (checked by the tests):
// ... OHDR(/data) FRHP FHDB ... BTLF ... BTHD <EOF>.
func c17MakeDenseFile(t *testing.T, arrayLen int) []byte {
	t.Helper()
	tmp := filepath.Join(t.TempDir(), "dense.h5")
	fw, err := CreateForWrite(tmp, CreateTruncate)
	if err != nil {
		t.Fatalf("create: %v", err)
	}
	ds, err := fw.CreateDataset("/data", Int32, []uint64{4})
	if err != nil {
		t.Fatalf("create dataset: %v", err)
	}
	if err := ds.Write([]int32{1, 2, 3, 4}); err != nil {
		t.Fatalf("write dataset: %v", err)
	}
	for i := 0; i < 10; i++ {
		vals := make([]int32, arrayLen)
		for j := range vals {
			vals[j] = int32(i*100 + j)
		}
		if err := ds.WriteAttribute(fmt.Sprintf("attr%d", i), vals); err != nil {
			t.Fatalf("write attribute %d: %v", i, err)
		}
	}
	if err := fw.Close(); err != nil {
		t.Fatalf("close: %v", err)
	}
	data := c17ReadFile(t, tmp)

	// Sanity: the intact file has 10 attributes on /data.
	f, err := Open(tmp)
	if err != nil {
		t.Fatalf("open intact dense file: %v", err)
	}
	defer func() { _ = f.Close() }()
	d := c17FindDataset(f, "/data")
	if d == nil {
		t.Fatalf("intact dense file: /data not found")
	}
	attrs, err := d.Attributes()
	if err != nil || len(attrs) != 10 {
		t.Fatalf("intact dense file: want 10 attributes, got %d (err=%v)", len(attrs), err)
	}
	return data
}

// c17DatasetAttrs opens the file image and returns Dataset("/data").Attributes().
func c17DatasetAttrs(t *testing.T, image []byte, dsPath string) (attrs []*core.Attribute, openErr, attrErr error) {
	t.Helper()
	f, err := Open(c17WriteTemp(t, image))
	if err != nil {
		return nil, err, nil
	}
	defer func() { _ = f.Close() }()
	d := c17FindDataset(f, dsPath)
	if d == nil {
		return nil, fmt.Errorf("dataset %s not found", dsPath), nil
	}
	attrs, attrErr = d.Attributes()
	return attrs, nil, attrErr
}

// ---- group membership --------------------------------------------------------------------------

// Site: hdf5.loadModernGroup#failstop#loadObject(file, linkMsg.ObjectAddress, linkMsg.Name)
// (error ignored, loop continues).
//
// testdata/v2.h5 (2128 bytes): root object header at 48..191 holds one hard link "data" to the
// dataset object header at 195. Intact answer: Walk = [/ , /data (Dataset)].
// Cut the file to 300 bytes (inside the dataset's object header): loadObject fails with a read
// error, loadModernGroup `continue`s, and Open succeeds with an empty root group.
func TestFindingC17_ModernGroupChildSilentlyDropped(t *testing.T) {
	data := c17ReadFile(t, "testdata/v2.h5")

	fi, err := Open(c17WriteTemp(t, data))
	if err != nil {
		t.Fatalf("intact open: %v", err)
	}
	want := c17Walk(fi)
	_ = fi.Close()
	if len(want) != 2 {
		t.Fatalf("intact walk: want 2 objects, got %v", want)
	}

	for _, cut := range []int{200, 300, 450} {
		f, err := Open(c17WriteTemp(t, data[:cut]))
		if err != nil {
			continue // an error is an acceptable answer
		}
		got := c17Walk(f)
		_ = f.Close()
		if !reflect.DeepEqual(got, want) {
			t.Errorf("FINDING: Open of v2.h5 cut to %d bytes succeeded but the root group silently lost members: got %v, intact file gives %v",
				cut, got, want)
		}
	}
}

// Site: structures.ReadGroupBTreeEntries#failstop#ParseSymbolTableNode(r, snodAddr, sb)
// (error ignored, loop continues)  -- reached through hdf5.Open -> loadGroup -> loadChildren.
//
// testdata/v0.h5 (2072 bytes): superblock v0, root B-tree at 136, local heap at 680, dataset
// header at 800, symbol table node (SNOD) at 1072..1120 (8-byte header + one 40-byte entry).
// Intact answer: Walk = [/ , /test (Dataset)].
// Cut to 1000 bytes (SNOD beyond EOF) or 1119 bytes (last byte of its only entry missing):
// ParseSymbolTableNode fails, the loop `continue`s, and Open succeeds with an empty root group.
func TestFindingC17_SymbolTableNodeSilentlyDropped(t *testing.T) {
	data := c17ReadFile(t, "testdata/v0.h5")

	fi, err := Open(c17WriteTemp(t, data))
	if err != nil {
		t.Fatalf("intact open: %v", err)
	}
	want := c17Walk(fi)
	_ = fi.Close()
	if len(want) != 2 {
		t.Fatalf("intact walk: want 2 objects, got %v", want)
	}

	for _, cut := range []int{800, 1000, 1119} {
		f, err := Open(c17WriteTemp(t, data[:cut]))
		if err != nil {
			continue
		}
		got := c17Walk(f)
		_ = f.Close()
		if !reflect.DeepEqual(got, want) {
			t.Errorf("FINDING: Open of v0.h5 cut to %d bytes succeeded but the root group silently lost members: got %v, intact file gives %v",
				cut, got, want)
		}
	}
}

// Site: hdf5.(*Group).loadChildren#failstop#readSignature/r.ReadAt(buf, int64(address))
// (error ignored, loop continues)#2  -- group.go:437, readSignature returns "" on any error.
//
// Only reachable with a hand-crafted (non-standard) file: the library supports symbol-table
// entries with name offset 0 that point at another SNOD ("unnamed SNOD", children are inlined).
// When the 4-byte signature read of that SNOD fails, the entry is treated as an ordinary named
// link instead; if the entry also carries cached symbol-table addresses (cache type 1) the
// object at the address is never read again, so no error can surface.
//
// Crafted image = testdata/v0.h5 with (a) a copy of the root SNOD (link "test" -> dataset at
// 800) appended at 2072 and (b) the root SNOD's only entry rewritten to
// {name offset 0, object address 2072, cache type 1, cached B-tree 136, cached heap 680}.
// Intact (crafted) answer: Walk = [/ , /test (Dataset)].
// Cut to 2074 bytes (2 bytes into the appended SNOD's signature): Open succeeds and the root
// contains one empty group named "" instead of the dataset.
// For files whose symbol-table entries point at object headers (every file written by the C
// library) a failed signature read is always followed by a strict re-read of the same address
// (loadObject -> ReadObjectHeader), so this site is harmless there.
func TestFindingC17_LoadChildrenSignatureReadFailure(t *testing.T) {
	data := c17ReadFile(t, "testdata/v0.h5")
	if len(data) != 2072 || string(data[1072:1076]) != "SNOD" {
		t.Skip("unexpected v0.h5 layout")
	}
	crafted := append(append([]byte{}, data...), data[1072:1120]...)
	e := crafted[1080:1120]
	binary.LittleEndian.PutUint64(e[0:], 0)    // link name offset 0
	binary.LittleEndian.PutUint64(e[8:], 2072) // object address -> appended SNOD
	binary.LittleEndian.PutUint32(e[16:], 1)   // cache type: symbol table
	binary.LittleEndian.PutUint32(e[20:], 0)   // reserved
	binary.LittleEndian.PutUint64(e[24:], 136) // cached B-tree address
	binary.LittleEndian.PutUint64(e[32:], 680) // cached heap address

	fi, err := Open(c17WriteTemp(t, crafted))
	if err != nil {
		t.Fatalf("crafted intact open: %v", err)
	}
	want := c17Walk(fi)
	_ = fi.Close()
	if len(want) != 2 || want[1] != "/test|*hdf5.Dataset" {
		t.Fatalf("crafted intact walk: %v", want)
	}

	for _, cut := range []int{2073, 2074, 2075} {
		f, err := Open(c17WriteTemp(t, crafted[:cut]))
		if err != nil {
			continue
		}
		got := c17Walk(f)
		_ = f.Close()
		if !reflect.DeepEqual(got, want) {
			t.Errorf("FINDING: crafted v0 file cut to %d bytes (inside an SNOD signature): Open succeeded but objects differ: got %q, intact file gives %q",
				cut, got, want)
		}
	}
}

// ---- v1 object header messages -----------------------------------------------------------------

// c17Group1Attrs opens an image of testdata/with_attributes.h5 and returns /group1's attributes.
func c17Group1Attrs(t *testing.T, image []byte) (names []string, openErr, attrErr error) {
	t.Helper()
	f, err := Open(c17WriteTemp(t, image))
	if err != nil {
		return nil, err, nil
	}
	defer func() { _ = f.Close() }()
	g := c17FindGroup(f, "/group1/")
	if g == nil {
		return nil, fmt.Errorf("/group1/ not found"), nil
	}
	attrs, err := g.Attributes()
	return c17AttrNames(attrs), nil, err
}

// Site: core.parseV1MessagesInBlock#failstop#r.ReadAt(msgHeaderBuf, int64(current))#2
// (short read of the 8-byte message header at EOF -> `break`, function returns nil error).
//
// testdata/with_attributes.h5 (8960 bytes): /group1 (v1 object header at 1944) has a
// continuation block at 8856..8960 holding a symbol-table message (8856) and the attribute
// message "description" (header at 8880..8888, data 8888..8960).
// Intact answer: /group1 attributes = [count description].
// Cut to 8884 bytes (inside the 8-byte header of the attribute message).
func TestFindingC17_V1MessageHeaderEOFDropsAttribute(t *testing.T) {
	data := c17ReadFile(t, "testdata/with_attributes.h5")
	want, oe, ae := c17Group1Attrs(t, data)
	if oe != nil || ae != nil || len(want) != 2 {
		t.Fatalf("intact: names=%v openErr=%v attrErr=%v", want, oe, ae)
	}
	got, oe, ae := c17Group1Attrs(t, data[:8884])
	if oe != nil || ae != nil {
		return // error is acceptable
	}
	if !reflect.DeepEqual(got, want) {
		t.Errorf("FINDING: file cut to 8884 bytes (inside a v1 message header): Group.Attributes() returned %v with nil error; intact file gives %v",
			got, want)
	}
}

// Site: core.parseV1MessagesInBlock#failstop#r.ReadAt(data, int64(current+8))#1
// (short read of the message body at EOF -> `break`, function returns nil error).
//
// Same file as above, cut to 8950 bytes: the attribute message header (8880..8888) is intact,
// its 72-byte body (8888..8960) is cut. Intact answer: /group1 attributes = [count description].
func TestFindingC17_V1MessageDataEOFDropsAttribute(t *testing.T) {
	data := c17ReadFile(t, "testdata/with_attributes.h5")
	want, oe, ae := c17Group1Attrs(t, data)
	if oe != nil || ae != nil || len(want) != 2 {
		t.Fatalf("intact: names=%v openErr=%v attrErr=%v", want, oe, ae)
	}
	got, oe, ae := c17Group1Attrs(t, data[:8950])
	if oe != nil || ae != nil {
		return
	}
	if !reflect.DeepEqual(got, want) {
		t.Errorf("FINDING: file cut to 8950 bytes (inside a v1 message body): Group.Attributes() returned %v with nil error; intact file gives %v",
			got, want)
	}
}

// Sites: core.parseV1MessagesInBlock ReadAt #1/#2 (as above); consequence seen through
// hdf5.loadObject: dropping header messages changes the *type* of the object.
//
// testdata/vlen_strings.h5: /compound_with_vlen is a Dataset (intact answer).
// Cut to 1300 bytes: the v1 header of the dataset loses its trailing messages (dataspace etc.),
// determineObjectType sees only the datatype message, and Open reports a NamedDatatype.
func TestFindingC17_V1MessageEOFChangesObjectType(t *testing.T) {
	data := c17ReadFile(t, "testdata/vlen_strings.h5")
	fi, err := Open(c17WriteTemp(t, data))
	if err != nil {
		t.Fatalf("intact open: %v", err)
	}
	want := c17Walk(fi)
	_ = fi.Close()

	for _, cut := range []int{1300, 1550} {
		f, err := Open(c17WriteTemp(t, data[:cut]))
		if err != nil {
			continue
		}
		got := c17Walk(f)
		_ = f.Close()
		if !reflect.DeepEqual(got, want) {
			t.Errorf("FINDING: vlen_strings.h5 cut to %d bytes: Open succeeded but objects differ: got %v, intact file gives %v",
				cut, got, want)
		}
	}
}

// ---- dense attributes --------------------------------------------------------------------------

// Site: core.ReadObjectHeader#failstop#ParseAttributesFromMessages(r, header.Messages, sb)
// (objectheader.go:143-150: `_ = err`).
//
// File written by this library: /data has 10 dense attributes (intact answer: 10 names).
// Cut the file in the middle (30000 of ~72 KB): the object header of /data is intact, but the
// B-tree v2 header / leaf of the attribute index are gone. ParseAttributesFromMessages returns
// "failed to read dense attributes", ReadObjectHeader discards the error and
// Dataset.Attributes() returns (nil, nil).
func TestFindingC17_DenseAttributeErrorSwallowedByReadObjectHeader(t *testing.T) {
	data := c17MakeDenseFile(t, 1)
	if len(data) < 40000 {
		t.Fatalf("unexpected dense file size %d", len(data))
	}
	attrs, oe, ae := c17DatasetAttrs(t, data[:30000], "/data")
	if oe != nil || ae != nil {
		return
	}
	if len(attrs) != 10 {
		t.Errorf("FINDING: dense-attribute file cut to 30000 of %d bytes: Dataset.Attributes() returned %d attributes %v with nil error; intact file gives 10 (attr0..attr9)",
			len(data), len(attrs), c17AttrNames(attrs))
	}
}

// Site: core.readBTreeV2HeaderRaw#failstop#r.ReadAt(buf, int64(addr))#1
// (a short read with io.EOF is accepted when n >= 20; the "number of records in root" field
// at +24 is then taken from the zero-filled tail of the buffer).
//
// Same generated file; the writer puts the BTHD header of the attribute name index last in the
// file. Cut the file at BTHD+22: signature, sizes and (low bytes of) the root node address are
// intact, NumRecordsRoot reads as 0, readBTreeV2LeafRecords returns zero heap IDs and
// ParseAttributesFromMessages itself returns ([], nil).
// Intact answer: 10 attributes.
func TestFindingC17_BTreeV2HeaderShortReadDropsAllAttributes(t *testing.T) {
	data := c17MakeDenseFile(t, 1)
	bthd := bytes.LastIndex(data, []byte("BTHD"))
	btlf := bytes.LastIndex(data, []byte("BTLF"))
	if bthd < 0 || btlf < 0 || btlf > bthd || bthd+38 != len(data) {
		t.Skipf("writer layout changed (bthd=%d btlf=%d size=%d)", bthd, btlf, len(data))
	}
	cut := data[:bthd+22]

	// Core level: isolates the site from ReadObjectHeader's own error swallowing.
	f, err := Open(c17WriteTemp(t, cut))
	if err != nil {
		return
	}
	defer func() { _ = f.Close() }()
	d := c17FindDataset(f, "/data")
	if d == nil {
		t.Fatalf("/data not found in cut file")
	}
	hdr, err := core.ReadObjectHeader(f.osFile, d.address, f.sb)
	if err != nil {
		return
	}
	attrs, err := core.ParseAttributesFromMessages(f.osFile, hdr.Messages, f.sb)
	if err == nil && len(attrs) != 10 {
		t.Errorf("FINDING: file cut 22 bytes into the B-tree v2 header: ParseAttributesFromMessages returned %d attributes with nil error; intact file gives 10",
			len(attrs))
	}
	// Public API.
	pub, err := d.Attributes()
	if err == nil && len(pub) != 10 {
		t.Errorf("FINDING: file cut 22 bytes into the B-tree v2 header: Dataset.Attributes() returned %d attributes with nil error; intact file gives 10",
			len(pub))
	}
}

// Site: core.readBTreeV2LeafRecords#failstop#r.ReadAt(buf, int64(addr))#1
// (a short read with io.EOF is accepted when n >= 10; records beyond n are zero-filled).
//
// Generated file with attributes of 64 int32 each (attribute message = 299 = 0x012B bytes).
// The image is re-laid-out the way the C library usually does it: the BTLF leaf is copied to
// the end of the file and the BTHD root-node address is patched to point at it (checksums are
// never verified by the reader). Intact (re-laid-out) answer: attr6 = [600 601 ... 663].
// Cut off the last 7 bytes: 4 (leaf checksum) + 2 (unused heap-ID bytes) + the HIGH byte of
// the length field in the last record's heap ID. The length becomes 0x2B = 43, the heap object
// is read 43 bytes long, ParseAttributeMessage accepts it with empty Data and
// Attribute.ReadValue() returns an empty slice -- no error anywhere.
func TestFindingC17_BTreeV2LeafShortReadChangesAttributeValue(t *testing.T) {
	data := c17MakeDenseFile(t, 64)
	bthd := bytes.LastIndex(data, []byte("BTHD"))
	btlf := bytes.LastIndex(data, []byte("BTLF"))
	if bthd < 0 || btlf < 0 {
		t.Skip("writer layout changed")
	}
	n := int(binary.LittleEndian.Uint16(data[bthd+24:]))
	leafSize := 6 + n*11 + 4
	newLeaf := len(data)
	crafted := append(append([]byte{}, data...), data[btlf:btlf+leafSize]...)
	binary.LittleEndian.PutUint64(crafted[bthd+16:], uint64(newLeaf))

	values := func(image []byte) (map[string]string, bool) {
		attrs, oe, ae := c17DatasetAttrs(t, image, "/data")
		if oe != nil || ae != nil {
			return nil, false
		}
		out := map[string]string{}
		for _, a := range attrs {
			v, err := a.ReadValue()
			if err != nil {
				out[a.Name] = "ERR"
			} else {
				out[a.Name] = fmt.Sprint(v)
			}
		}
		return out, true
	}

	want, ok := values(crafted)
	if !ok || len(want) != 10 {
		t.Fatalf("re-laid-out intact image must give 10 attributes, got %d", len(want))
	}
	got, ok := values(crafted[:len(crafted)-7])
	if !ok {
		return
	}
	for name, w := range want {
		g, present := got[name]
		switch {
		case !present:
			t.Errorf("FINDING: file cut 7 bytes short (inside B-tree v2 leaf): attribute %s silently missing", name)
		case g != w && g != "ERR":
			t.Errorf("FINDING: file cut 7 bytes short (inside B-tree v2 leaf): attribute %s silently changed: got %.40s, intact file gives %.40s...",
				name, g, w)
		}
	}
}

// Site: core.ParseAttributesFromMessages#failstop#ParseAttributeInfoMessage(msg.Data, sb)
// (attribute.go:416-420: on error `attrInfo = nil`, i.e. "no dense storage").
// Fault model: CORRUPT input (one flipped bit), not truncation -- msg.Data is always read in
// full, so a cut file cannot reach this branch.
//
// Generated dense file, intact answer: 10 attributes. Setting bit 1 ("creation order indexed")
// in the flags byte of the Attribute Info message makes the message 8 bytes too short for the
// announced layout; the parse error is swallowed and /data reports zero attributes.
func TestFindingC17_AttributeInfoParseErrorDropsDenseAttributes(t *testing.T) {
	data := c17MakeDenseFile(t, 1)
	p := c17WriteTemp(t, data)
	f, err := Open(p)
	if err != nil {
		t.Fatalf("open: %v", err)
	}
	d := c17FindDataset(f, "/data")
	hdr, err := core.ReadObjectHeader(f.osFile, d.address, f.sb)
	if err != nil {
		t.Fatalf("header: %v", err)
	}
	pos := -1
	for _, m := range hdr.Messages {
		if m.Type == core.MsgAttributeInfo {
			// Locate the message body in the image (v2 message header is 4 or 6 bytes).
			for _, h := range []int{4, 6} {
				o := int(m.Offset) + h
				if o+len(m.Data) <= len(data) && bytes.Equal(data[o:o+len(m.Data)], m.Data) {
					pos = o
				}
			}
		}
	}
	_ = f.Close()
	if pos < 0 {
		t.Skip("attribute info message not located")
	}
	corrupt := append([]byte{}, data...)
	corrupt[pos+1] |= 0x02

	attrs, oe, ae := c17DatasetAttrs(t, corrupt, "/data")
	if oe != nil || ae != nil {
		return
	}
	if len(attrs) != 10 {
		t.Errorf("FINDING: one flipped flag bit in the Attribute Info message: Dataset.Attributes() returned %d attributes with nil error; intact file gives 10",
			len(attrs))
	}
}

// Site: core.ParseAttributesFromMessages#failstop#ParseAttributeMessage(msg.Data, sb.Endianness)
// (error ignored, loop continues). Fault model: CORRUPT input, not truncation.
//
// testdata/with_attributes.h5: the root group has 4 compact attributes
// [title version pi array_attr] (intact answer). The "version" attribute message body starts
// at 904 (message header at 896). Overwriting the high byte of its datatype-size field makes
// ParseAttributeMessage fail ("datatype extends beyond message"); the attribute is skipped.
func TestFindingC17_CompactAttributeParseErrorDropsAttribute(t *testing.T) {
	data := c17ReadFile(t, "testdata/with_attributes.h5")
	rootAttrs := func(image []byte) ([]string, bool) {
		f, err := Open(c17WriteTemp(t, image))
		if err != nil {
			return nil, false
		}
		defer func() { _ = f.Close() }()
		attrs, err := f.Root().Attributes()
		if err != nil {
			return nil, false
		}
		return c17AttrNames(attrs), true
	}
	want, ok := rootAttrs(data)
	if !ok || len(want) != 4 {
		t.Fatalf("intact root attributes: %v", want)
	}
	corrupt := append([]byte{}, data...)
	corrupt[904+5] = 0xFF // datatype size: 0x00xx -> 0xFFxx
	got, ok := rootAttrs(corrupt)
	if !ok {
		return
	}
	if !reflect.DeepEqual(got, want) {
		t.Errorf("FINDING: one corrupted byte in an attribute message: Group.Attributes() returned %v with nil error; intact file gives %v",
			got, want)
	}
}

// Site: core.findContinuations#failstop#parseContinuationMessage(msg.Data, sb)
// (error ignored, loop continues). Fault model: CORRUPT input, not truncation.
//
// testdata/with_attributes.h5: the root object header (v1, at 96) consists of a single
// continuation message (body at 120: address 8 bytes, length 8 bytes) pointing at the block
// 800..1128 that holds the symbol-table message and all 4 root attributes.
// Zeroing the length field makes parseContinuationMessage fail ("invalid continuation block
// size: 0"); the whole block is skipped and the root group reports no attributes.
// Intact answer: [title version pi array_attr].
func TestFindingC17_ContinuationParseErrorDropsMessages(t *testing.T) {
	data := c17ReadFile(t, "testdata/with_attributes.h5")
	f, err := Open(c17WriteTemp(t, data))
	if err != nil {
		t.Fatalf("open: %v", err)
	}
	wantAttrs, err := f.Root().Attributes()
	_ = f.Close()
	if err != nil || len(wantAttrs) != 4 {
		t.Fatalf("intact root attributes: %v err=%v", c17AttrNames(wantAttrs), err)
	}

	corrupt := append([]byte{}, data...)
	for i := 128; i < 136; i++ {
		corrupt[i] = 0
	}
	f2, err := Open(c17WriteTemp(t, corrupt))
	if err != nil {
		return
	}
	defer func() { _ = f2.Close() }()
	got, err := f2.Root().Attributes()
	if err != nil {
		return
	}
	if len(got) != 4 {
		t.Errorf("FINDING: continuation message with zeroed length: Group.Attributes() returned %v with nil error; intact file gives %v",
			c17AttrNames(got), c17AttrNames(wantAttrs))
	}
}

// ---- filter pipeline ---------------------------------------------------------------------------

// Sites: core.(*FilterPipelineMessage).ApplyFilters#failstop#applyFilter(...) and all eight
// inlined variants (applyLZF/lzfDecompress, applyDeflate, applyBZIP2/io.ReadAll, applyShuffle,
// applyFletcher32, applySZIP) -- one mechanism: `result, err = applyFilter(...)` overwrites
// result with nil and, for a filter flagged optional, `continue`s.
// Fault model: CORRUPT chunk bytes (chunk reads themselves are strict, so truncation cannot
// reach this branch).
//
// testdata/hdf5_official/h5ex_d_lzf.h5: DS1 is 32x64 int32, chunks 4x8, one LZF filter that
// the file itself flags as optional (flags=1). Intact answer: ReadSlice([0,0],[4,8]) returns
// the 32 decoded values of chunk (0,0). After overwriting the first three bytes of that chunk
// with an LZF back-reference that points before the start of the output, lzfDecompress fails,
// ApplyFilters returns (nil, nil) and ReadSlice returns 32 zeros without an error.
func TestFindingC17_OptionalFilterFailureYieldsSilentZeros(t *testing.T) {
	data := c17ReadFile(t, "testdata/hdf5_official/h5ex_d_lzf.h5")

	// Locate chunk (0,0).
	var chunkAddr uint64
	{
		f, err := Open(c17WriteTemp(t, data))
		if err != nil {
			t.Fatalf("open: %v", err)
		}
		d := c17FindDataset(f, "/DS1")
		if d == nil {
			t.Fatalf("/DS1 not found")
		}
		hdr, err := core.ReadObjectHeader(f.osFile, d.address, f.sb)
		if err != nil {
			t.Fatalf("header: %v", err)
		}
		for _, m := range hdr.Messages {
			if m.Type != core.MsgDataLayout {
				continue
			}
			l, err := core.ParseDataLayoutMessage(m.Data, f.sb)
			if err != nil {
				t.Fatalf("layout: %v", err)
			}
			bt, err := core.ParseBTreeV1Node(f.osFile, l.DataAddress, f.sb.OffsetSize, len(l.ChunkSize), l.ChunkSize)
			if err != nil {
				t.Fatalf("btree: %v", err)
			}
			chunks, err := bt.CollectAllChunks(f.osFile, f.sb.OffsetSize, l.ChunkSize)
			if err != nil {
				t.Fatalf("chunks: %v", err)
			}
			for _, c := range chunks {
				if c.Key.Scaled[0] == 0 && c.Key.Scaled[1] == 0 {
					chunkAddr = c.Address
				}
			}
		}
		_ = f.Close()
	}
	if chunkAddr == 0 {
		t.Fatalf("chunk (0,0) not found")
	}

	slice := func(image []byte) (interface{}, error) {
		f, err := Open(c17WriteTemp(t, image))
		if err != nil {
			return nil, err
		}
		defer func() { _ = f.Close() }()
		d := c17FindDataset(f, "/DS1")
		if d == nil {
			return nil, fmt.Errorf("/DS1 not found")
		}
		return d.ReadSlice([]uint64{0, 0}, []uint64{4, 8})
	}

	want, err := slice(data)
	if err != nil {
		t.Fatalf("intact ReadSlice: %v", err)
	}
	corrupt := append([]byte{}, data...)
	corrupt[chunkAddr] = 0xFF // long back-reference, offset high bits 0x1F
	corrupt[chunkAddr+1] = 0xFF
	corrupt[chunkAddr+2] = 0xFF
	got, err := slice(corrupt)
	if err != nil {
		return // an error is the acceptable answer
	}
	if !reflect.DeepEqual(got, want) {
		t.Errorf("FINDING: chunk (0,0) of an optional-LZF dataset is undecodable, yet ReadSlice returned %s with nil error; intact file gives %s",
			strings.TrimSpace(fmt.Sprintf("%.60v", got)), strings.TrimSpace(fmt.Sprintf("%.60v", want)))
	}
}
